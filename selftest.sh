#!/bin/bash
exec python3 "$(dirname "${BASH_SOURCE[0]}")/selftest.py" "$@"
