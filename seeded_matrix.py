#!/usr/bin/env python3
"""Print the seeded-change x check matrix (markdown) from /verif/seeded/*/meta.json."""
import json, glob, os
PROPS = ["C01", "C06", "C08", "C11", "C17", "C18", "C20"]
print("| change | breaks | what it needs | " + " | ".join(PROPS) + " |")
print("|---|---|---|" + "---|" * len(PROPS))
for f in sorted(glob.glob(os.path.join(os.path.dirname(os.path.abspath(__file__)), "seeded/*/meta.json"))):
    m = json.load(open(f))
    name = f.split("/")[-2]
    title = m["description_by_author"].strip().splitlines()[0].lstrip("# ").strip()
    title = title.split(" ", 2)[-1] if title[:1] == "m" else title
    title = title.lstrip("-— ").replace("|", "/")[:110]
    cb = m.get("caught_by", {})
    cells = []
    for p in PROPS:
        if p in cb:
            c = cb[p]["class"]
            cells.append("**X**" if not c.startswith("harness") else "(2)")
        else:
            cells.append("")
    print(f"| {name} | {m['property']} | {title} | " + " | ".join(cells) + " |")
