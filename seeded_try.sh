#!/bin/bash
# seeded_try.sh <seeded name | path to diff> <property> [extra env...]: the working-tree simulator against a scratch copy
# of /repo with one change applied (release profile only); scratch under /var/tmp, removed afterwards unless KEEP=1
set -u
N="$1"; P="$2"
D="/verif/seeded/$N/patch.diff"; [ -f "$D" ] || D="$N"
S="/var/tmp/try-$(basename "$N" .diff)-$$"
rm -rf "$S"; mkdir -p "$S"
rsync -a --exclude target --exclude .git /repo/ "$S/repo/"
rsync -a --exclude target /verif/sim/ "$S/sim/"
(cd "$S/repo" && patch -p1 -s < "$D") || { echo "patch does not apply"; exit 2; }
sed -i "s#path = \"/repo\"#path = \"$S/repo\"#" "$S/sim/Cargo.toml"
sed -i "s#/verif/.target#$S/target#" "$S/sim/.cargo/config.toml"
export CARGO_NET_OFFLINE=true CARGO_TARGET_DIR="$S/target" VERIF_REPLAY_DIR="$S/replays" VERIF_EVIDENCE_DIR="$S/evidence"
(cd "$S/sim" && cargo build --release --offline 2>&1 | grep -E "^error" -A8)
"$S/target/release/rtcp-sim" run "$P" quick 2>&1 | grep -v "^#   trace" | tail -${TAIL:-12}
echo "rc=$?"
[ "${KEEP:-0}" = 1 ] && echo "kept $S" || rm -rf "$S"
