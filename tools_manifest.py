#!/usr/bin/env python3
"""Regenerates /verif/MANIFEST.json (kept in one place so that it stays schema-valid)."""
import json

HOOK_COMMITS = ["3408bd8"]

CLAIMED = {
 "C01": ("exploration", "DESIGN.md §6 C01",
   "Seeded simulation of a receiver node behind a fault-injecting channel: honest traffic (real builders + an independent RFC encoder) is damaged by composed channel faults, delivered to every public parsing entry point, and a tape-driven read-out history exercises every public accessor, conversion and iterator on whatever is accepted; any unwind, any iterator exceeding 5*len+32 steps (driven by next() or by nth / skip / step_by / count / last / fold), any iterator sequence that changes when re-created or interleaved, any call stuck for 20-60 s and any call that takes the process down (located by bisection over the deterministic episodes) is a violation. Deliveries are received in place in one reused buffer; once per run a 2^20-packet chain is delivered, also to an unoptimised build. Sampling of an unbounded input x history space: evidence, not proof.",
   "Trusted: the harness's panic capture and watchdog; overflow-checks and debug-assertions are enabled so arithmetic overflow counts as a panic. Documented-panic calls (priv_prefix*) are issued on PRIV items only. Every check publishes the case it is executing; a stuck call or unbounded allocation is reported with that case (C01: VIOLATION; other checks: exit 2)."),
 "C06": ("fault_enumeration", "DESIGN.md §6 C06",
   "Every sampled builder configuration (all builder types incl. stand-alone FCI builders, wrappers, nested compounds, part builders, invalid configurations near every limit; a quarter reached through a seeded call history, a quarter with size queries on the unfinished builders) is realised with the real builders and written into a buffer of EVERY capacity 0..=n+8: the capacity fault is enumerated exhaustively per configuration, configurations are sampled. The oracle is the statement itself (Ok(n) iff cap >= n, OutputTooSmall(n) otherwise, same error when size calculation fails, n % 4 == 0 for whole packets, no unwind).",
   "Exhaustive in capacity per configuration only; the configuration space is sampled. Part builders have no public calculate_size: n is the value carried by OutputTooSmall at capacity 0."),
 "C08": ("fault_enumeration", "DESIGN.md §6 C08",
   "Around each seeded intact packet the single-fault space of the channel is enumerated exhaustively (every truncation length, all 256 values of header byte 0 and of the type byte, length-field and padding-trailer rewrites, small extensions) plus seeded double faults that re-frame damage, and once per run all 65536 values of the length field (frames exactly, just below and just above the announced size, every packet type); each delivery goes to all typed parsers, Unknown and Packet; an independent header reader with hard-coded RFC minima checks the implication accept => exactly framed, and the header accessors (called both ways) against the wire bytes; the same for typed views obtained by try_as and for three harness-defined parsers on the public check_packet helper.",
   "Exhaustive per base in the single-fault dimension; bases and double faults are sampled. Only the implication stated by the property is checked, nothing is demanded of rejections."),
 "C11": ("fault_enumeration", "DESIGN.md §6 C11",
   "Around each seeded compound datagram: every truncation length, extensions / coalescing, and per tile the length-field, version and type rewrites, plus seeded double faults, and once per run all 65536 values of a tile's length field; Compound::parse must accept iff a 10-line reference tiler partitions the bytes, and tape-driven reader histories (next() past the end, two interleaved iterators, re-parse and resume after partial iteration) must yield exactly Packet::parse of each reference tile up to and including the first error, then None forever, whichever Iterator method drives them (next, nth, skip, step_by, count, last, fold; through by_ref() or by value). Datagrams are parsed in place in one reused receive buffer (a reported case carries the previous content).",
   "Exhaustive per base in the single-fault dimension; bases, double faults and reader histories are sampled. Items are compared through their Debug rendering. An unwind of Compound::parse itself (acceptance undecided) or of the iterator when Packet::parse returns normally on every tile is reported as a violation."),
 "C17": ("fault_enumeration", "DESIGN.md §6 C17",
   "Two lock-step worlds whose output buffers differ in every byte (A seeded, B = !A) perform the same writes under an exhaustive capacity sweep per configuration, each checked against a shadow buffer (bytes reported as written equal in both worlds, everything else untouched, failed writes change nothing); an unwound write must leave the buffer unchanged as well; and an MTU-packing loop reuses one arena across 2-12 packets with flush-without-clear, comparing each flushed datagram with the images the same builders write in isolation.",
   "Exhaustive in capacity per configuration and in the two residue worlds; configurations and arena histories are sampled. A write that unwinds in both worlds is C06's finding and is inconclusive here."),
 "C18": ("fault_enumeration", "DESIGN.md §6 C18",
   "Layer A: the same exhaustive single-fault enumeration as C08/C11, including the once-per-run sweep of all 65536 length-field values; every error returned by every parser (typed, Unknown, Packet, ReportBlock, Compound and the items it yields, FCI parsers, parse_fci, the 28 conversions, three harness-defined check_packet parsers) is checked against facts computed from the delivered bytes, with the two exactness clauses applied under their stated preconditions only. Layer B: intact packets are delivered as a byte stream in seeded fragments to a reassembly loop that trusts Truncated.expected; it must emit exactly the sent packets, never wait for bytes that will not come, and finish within 3 parse calls per packet once the last fragment has arrived.",
   "Exhaustive per base in the single-fault dimension (short reads at every position); bases and fragmentations are sampled. Layer B only carries packets the parser accepts when intact. Where an exactness clause fixes what must be reported, an unwind of the parser counts as a violation of that clause."),
 "C20": ("exploration", "DESIGN.md §6 C20",
   "Sequential refinement of the builder API against a small reference model: a tape-driven call history (permuted setters, stale overwritten calls, shuffled and repeated NACK/FIR adds, owned/borrowed variant and argument form at every position, invalid stale values, constructor forms, size queries / scratch writes / Debug on the unfinished builders, PacketBuilder / one-member compound wrappers also as non-last members of an outer compound, a different FIR hash key, a differently pre-filled output buffer) is first applied to the model, must reach the target configuration, and the real builders driven by it must announce the same size and write the same bytes as the canonical build (FIR entries as a multiset); lists are also compared with the concatenation of one-element images in call order.",
   "Sampling of configurations x histories. The FIR hash key is controlled through the verif-hooks seam."),
}

NA = {
 "C02": "SR/RR build->parse equality is a pure function of field values and block count; nothing environment-chosen (no fault, capacity, residue, call order) occurs in the statement, so simulation would be seeded input generation in costume.",
 "C03": "SDES build->parse equality depends on length/SSRC-byte arithmetic of the configuration only; pure relation between one call's honest arguments and its result.",
 "C04": "BYE/APP build->parse equality over (sources, reason length, padding): arithmetic on arguments, no fault, boundary or history dimension.",
 "C05": "Feedback/FCI build->parse equality over sets/maps/bit strings: pure; the only nondeterminism (FIR order) is quotiented out by the statement itself.",
 "C07": "Byte-exact comparison with an independent RFC encoder is translation validation of a pure function; there is nothing for a simulator to schedule or inject.",
 "C09": "Accessor = big-endian read at the RFC offset / returned slices alias the input: a pointwise relation between an input and its view; damaged-but-accepted bytes run the same accessor code as intact ones.",
 "C10": "SDES tokenisation is a pure function from bytes to accept+tokens / reject, decided by a reference tokeniser on the same bytes; its core is fully reachable with every fault switched off (overruns that crash are still caught under C01).",
 "C12": "Agreement of Packet::parse / try_as with the typed parsers is an equation between two pure functions of the same bytes plus a finite conversion matrix; fault-agnostic.",
 "C13": "Padding transparency is a metamorphic relation between two well-formed inputs; no component of a deployment adds padding in flight for a simulator to model honestly.",
 "C14": "Compound = concatenation of member images and parses back to them: pure in the member list.",
 "C15": "FCI decoding per RFC 4585/5104 is a pure decode relation against a reference decoder; iterator state is internal and exhausted by plain iteration.",
 "C16": "The exact acceptance set of builder configurations is a predicate on the arguments of one call.",
 "C19": "Interoperation of third-party packet types quantifies over programs (packet definitions) and helper arguments; pure, nothing environment-chosen.",
}


TECH = {
 "C01": "deterministic simulation: seeded channel-fault injection on honest traffic + tape-driven accessor/iterator histories on the real parsers; panic, step-bound and hang monitors; explicit replay files",
 "C06": "deterministic simulation: exhaustive buffer-capacity fault sweep per seeded builder configuration against the real writers",
 "C08": "deterministic simulation: exhaustive single-fault enumeration (truncate/extend/header/trailer) + seeded double faults on the channel, independent header-reader oracle",
 "C11": "deterministic simulation: exhaustive single-fault enumeration over the datagram's length chain + tape-driven iterator call histories, reference-tiler oracle",
 "C17": "deterministic simulation: twin-world buffer residue + capacity sweep + reused-arena write histories with shadow-arena oracle",
 "C18": "deterministic simulation: exhaustive short-read/corruption enumeration with error-truth invariants + stream reassembly loop driven by the library's errors (bounded liveness)",
 "C20": "deterministic simulation: seeded builder call histories checked by refinement against a reference model, FIR hash order behind a seeded seam",
}

AMBIENT = " In a quarter of the episodes a seeded second party shares the observed session's thread: at the call boundaries of the observed session (every 4th to 64th on average, decided by a generator reseeded from the episode seed) it takes one step of a session of its own - a compound iterator kept alive part-way, a view read out later, ill-formed datagrams, the episode's own earlier deliveries parsed again, live builders of every type measured / written / dropped"
AMBIENT_W = ", and configurations of the same shape as the one under observation (lent by the check) measured and written"
EXTRA = {
 "C06": " After the sweep the builder is measured again and write_into_unchecked is handed exactly the announced size: it must return n without unwinding.",
}

def main():
    checks = []
    for pid, (level, ref, text, note) in sorted(CLAIMED.items()):
        text = text + EXTRA.get(pid, "") + AMBIENT + (AMBIENT_W if pid in ("C06", "C17") else "") + "; the monitors judge the observed session as before, and a violation that needs the second party is reported as the episode re-run alone (process history)."
        checks.append({
            "property_id": pid,
            "quick_cmd": f"./check {pid} quick",
            "thorough_cmd": f"./check {pid} thorough",
            "evidence_file": f"/verif/evidence/{pid}.json",
            "replay_cmd_template": "./check replay {path}",
            "engine": "rtcp-sim",
            "level_claimed": {"category": level, "text": text, "design_ref": ref},
            "level_note": note,
            "technique": TECH[pid],
        })
    m = {
        "version": 1,
        "setup_cmd": "./check build",
        "hooks": {
            "guard": "verif-hooks (cargo feature of rtcp-types, off by default)",
            "enable": "the simulator crate /verif/sim depends on rtcp-types = { path = \"/repo\", features = [\"verif-hooks\"] }; equivalent to cargo build --features verif-hooks",
            "baseline_off_cmd": "cd /repo && cargo test --workspace --no-fail-fast --offline",
            "source_commits": HOOK_COMMITS,
            "add_only": True,
        },
        "engines": [{
            "name": "rtcp-sim",
            "path": "/verif/sim",
            "serves_properties": sorted(CLAIMED),
            "kind_free_text": "single-process deterministic simulator: seeded episode scheduler, sender (real builders) -> arena (capacity/residue seam) -> channel (fault injector) -> receiver (real parsers + tape-driven read-out histories), per-property monitors, minimiser, explicit PRNG-free replay files",
        }],
        "checks": checks,
        "notes": "Technique family: deterministic simulation with fault injection. rtcp-types has no threads, clock or I/O; the simulated environment is the channel (damage to delivered bytes), the output arena (capacity, residue, write history) and the call history on stateful objects, plus the one real nondeterminism source (FirBuilder's RandomState), which is behind the verif-hooks seam. Properties that relate one call's honest arguments to its result are listed not_applicable (DESIGN.md sections 2 and 7). Exit codes: 0 held, 1 violation, 2 harness error. VERIF_SEED (default 1), VERIF_EPISODES, VERIF_WORKERS are honoured.",
        "not_applicable": [{"property_id": k, "reason": v} for k, v in sorted(NA.items())],
    }
    json.dump(m, open("/verif/MANIFEST.json", "w"), indent=1)
    print("wrote MANIFEST.json with", len(checks), "checks,", len(NA), "not applicable")

if __name__ == "__main__":
    main()
