#!/usr/bin/env python3
"""Regenerates /verif/MANIFEST.json (kept in one place so that it stays schema-valid)."""
import json, subprocess, sys

CLAIMED = {
 "C01": ("exploration", "§6 C01",
   "Seeded simulation of a receiver node behind a fault-injecting channel: honest traffic (real builders + an independent RFC encoder) is damaged by composed channel faults, delivered to every public parsing entry point, and a tape-driven read-out history exercises every public accessor, conversion and iterator on whatever is accepted; any unwind, any iterator exceeding 5*len+32 steps, any iterator sequence that changes when re-created or interleaved, and any call stuck for 60 s is a violation. Sampling of an unbounded input space: evidence, not proof.",
   "Trusted: the harness's panic capture and watchdog; rustc's overflow/debug assertions (enabled) as the definition of 'panics'. Documented-panic calls (priv_prefix*) are only issued on PRIV items."),
}

NA = {
 "C02": "SR/RR build->parse equality is a pure function of field values and block count; nothing environment-chosen (no fault, capacity, residue, call order) occurs in the statement, so simulation would be seeded input generation in costume.",
 "C03": "SDES build->parse equality depends on length/SSRC-byte arithmetic of the configuration only; pure relation between one call's honest arguments and its result.",
 "C04": "BYE/APP build->parse equality over (sources, reason length, padding): arithmetic on arguments, no fault, boundary or history dimension.",
 "C05": "Feedback/FCI build->parse equality over sets/maps/bit strings: pure; the only nondeterminism (FIR order) is quotiented out by the statement itself.",
 "C07": "Byte-exact comparison with an independent RFC encoder is translation validation of a pure function; there is nothing for a simulator to schedule or inject.",
 "C09": "Accessor = big-endian read at the RFC offset / returned slices alias the input: a pointwise relation between an input and its view; damaged-but-accepted bytes run the same accessor code as intact ones.",
 "C10": "SDES tokenisation is a pure function from bytes to accept+tokens / reject, decided by a reference tokeniser on the same bytes; its core is fully reachable with every fault switched off (overruns that crash are still caught under C01).",
 "C12": "Agreement of Packet::parse / try_as with the typed parsers is an equation between two pure functions of the same bytes plus a finite conversion matrix; fault-agnostic.",
 "C13": "Padding transparency is a metamorphic relation between two well-formed inputs; no component of a deployment adds padding in flight for a simulator to model honestly.",
 "C14": "Compound = concatenation of member images and parses back to them: pure in the member list.",
 "C15": "FCI decoding per RFC 4585/5104 is a pure decode relation against a reference decoder; iterator state is internal and exhausted by plain iteration.",
 "C16": "The exact acceptance set of builder configurations is a predicate on the arguments of one call.",
 "C19": "Interoperation of third-party packet types quantifies over programs (packet definitions) and helper arguments; pure, nothing environment-chosen.",
}

def main():
    checks = []
    for pid, (level, ref, text, note) in sorted(CLAIMED.items()):
        checks.append({
            "property_id": pid,
            "quick_cmd": f"./check {pid} quick",
            "thorough_cmd": f"./check {pid} thorough",
            "evidence_file": f"/verif/evidence/{pid}.json",
            "replay_cmd_template": "./check replay {path}",
            "engine": "rtcp-sim",
            "level_claimed": {"category": level, "text": text, "design_ref": ref},
            "level_note": note,
            "technique": TECH[pid],
        })
    m = {
        "version": 1,
        "setup_cmd": "./check build",
        "hooks": {
            "guard": "verif-hooks (cargo feature of rtcp-types, off by default)",
            "enable": "the simulator crate /verif/sim depends on rtcp-types = { path = \"/repo\", features = [\"verif-hooks\"] }; equivalent to cargo build --features verif-hooks",
            "baseline_off_cmd": "cd /repo && cargo test --workspace --no-fail-fast --offline",
            "source_commits": HOOK_COMMITS,
            "add_only": True,
        },
        "engines": [{
            "name": "rtcp-sim",
            "path": "/verif/sim",
            "serves_properties": sorted(CLAIMED),
            "kind_free_text": "single-process deterministic simulator: seeded episode scheduler, sender (real builders) -> arena (capacity/residue seam) -> channel (fault injector) -> receiver (real parsers + tape-driven read-out histories), per-property monitors, minimiser, explicit PRNG-free replay files",
        }],
        "checks": checks,
        "notes": "Technique family: deterministic simulation with fault injection. rtcp-types has no threads, clock or I/O; the simulated environment is the channel (damage to delivered bytes), the output arena (capacity, residue, write history) and the call history on stateful objects, plus the one real nondeterminism source (FirBuilder's RandomState), which is behind the verif-hooks seam. Properties that relate one call's honest arguments to its result are listed not_applicable (DESIGN.md §2, §7).",
        "not_applicable": [{"property_id": k, "reason": v} for k, v in sorted(NA.items())],
    }
    json.dump(m, open("/verif/MANIFEST.json", "w"), indent=1)
    print("wrote MANIFEST.json with", len(checks), "checks,", len(NA), "not applicable")

TECH = {
 "C01": "deterministic simulation: seeded channel-fault injection on honest traffic + tape-driven accessor/iterator histories on the real parsers, panic/step-bound/hang monitors",
}
HOOK_COMMITS = ["3408bd8"]

if __name__ == "__main__":
    main()
