#!/bin/bash
# seeded_round.sh <round letter> <worktree prefix>: confirm every mutant of a round (7 worktrees in parallel),
# results in <prefix>-<P>-<round>/mutants/validate.log
R="$1"; PFX="${2:-/tmp/wt}"
for p in C01 C06 C08 C11 C17 C18 C20; do
  wt="$PFX-$p-$R"
  [ -d "$wt/mutants" ] || continue
  ( for k in 1 2 3 4; do [ -f "$wt/mutants/m$k.diff" ] && /verif/seeded_validate.sh "$wt" "$k"; done > "$wt/mutants/validate.log" 2>&1 ) &
done
wait
for p in C01 C06 C08 C11 C17 C18 C20; do echo "== $p-$R"; cat "$PFX-$p-$R/mutants/validate.log" 2>/dev/null; done
