#!/usr/bin/env python3
"""Meta-checks of the verification machinery (DESIGN.md §9).  Not a registered check.

  selftest.py determinism [episodes]     same seed => same digest, across processes, worker
                                         counts and ASLR settings
  selftest.py sensitivity [ids...]       scripted property-breaking edits in a scratch copy of
                                         /repo: the owning check must exit 1 with a replay that
                                         reproduces there and passes on the pristine tree;
                                         behaviour-preserving edits must leave every check at 0
  selftest.py seeded [names...]          the same for the independently written changes kept
                                         under /verif/seeded/<id>/patch.diff

Scratch copies live under /var/tmp and are removed after each case.
"""
import json, os, shutil, subprocess, sys, time

VERIF = os.path.dirname(os.path.abspath(__file__))
BIN = os.path.join(VERIF, ".target", "release", "rtcp-sim")
SCRATCH = os.environ.get("VERIF_SCRATCH", "/var/tmp/rtcp-verif-selftest")
PROPS = ["C01", "C06", "C08", "C11", "C17", "C18", "C20"]
ENV = dict(os.environ, CARGO_NET_OFFLINE="true")


def sh(cmd, cwd=None, env=None, timeout=3600):
    p = subprocess.run(cmd, shell=True, cwd=cwd, env=env or ENV, stdout=subprocess.PIPE, stderr=subprocess.STDOUT, text=True, timeout=timeout)
    return p.returncode, p.stdout


# ----------------------------------------------------------------------------- determinism

def determinism(episodes):
    rc, out = sh(f"{VERIF}/check build")
    if rc != 0:
        print(out)
        return 2
    bad = 0
    for p in PROPS:
        lines = {}
        for label, prefix, workers in [("w1", "", 1), ("w4", "", 4), ("w16", "", 16), ("w16-again", "", 16), ("w16-noaslr", "setarch -R ", 16), ("w3", "", 3)]:
            env = dict(ENV, VERIF_WORKERS=str(workers), VERIF_SEED="1")
            rc, out = sh(f"{prefix}{BIN} digest {p} {episodes}", env=env)
            line = [l for l in out.splitlines() if l.startswith("digest ")]
            lines[label] = line[0] if line else f"<no digest, rc={rc}: {out[-200:]}>"
        # a different seed must give a different digest (the seed is actually used)
        rc, out = sh(f"{BIN} digest {p} {episodes}", env=dict(ENV, VERIF_SEED="2"))
        other = [l for l in out.splitlines() if l.startswith("digest ")]
        same = len(set(lines.values())) == 1
        differs = bool(other) and other[0].split("trace_digest=")[1] != lines["w1"].split("trace_digest=")[1]
        print(f"{p}: {'identical' if same else 'MISMATCH'} across {len(lines)} runs; seed 2 {'differs' if differs else 'DOES NOT DIFFER'}")
        print(f"   {lines['w1']}")
        if not same:
            for k, v in lines.items():
                print(f"   {k}: {v}")
            bad += 1
        if not differs:
            bad += 1
    print("determinism:", "OK" if bad == 0 else f"{bad} FAILURES")
    return 0 if bad == 0 else 2


# ----------------------------------------------------------------------------- sensitivity

# (name, property that must catch it, file, old text, new text)
BREAKING = [
    # C01
    ("c01-sr-drop-count-check", "C01", "src/sender.rs", "        if data.len() < req_len {", "        if data.len() + 24 < req_len {"),
    ("c01-nack-end-test", "C01", "src/feedback/nack.rs", "            if idx + 3 >= self.parser.data.len() {", "            if idx + 3 > self.parser.data.len() {"),
    ("c01-fir-end-test", "C01", "src/feedback/fir.rs", "        if idx + 7 >= self.parser.data.len() {", "        if idx + 3 >= self.parser.data.len() {"),
    ("c01-rpsi-drop-padding-check", "C01", "src/feedback/rpsi.rs", "        if ret.padding_bytes() > data.len() - 2 {", "        if ret.padding_bytes() > data.len() {"),
    ("c01-sdes-item-end", "C01", "src/sdes.rs", "        if end > data.len() {\n            return Err(RtcpParseError::Truncated {\n                expected: end,", "        if end > data.len() + 1 {\n            return Err(RtcpParseError::Truncated {\n                expected: end,"),
    ("c01-bye-reason-check", "C01", "src/bye.rs", "            if reason_len_offset + 1 + reason_len > data.len() {", "            if reason_len_offset + reason_len > data.len() {"),
    ("c01-compound-is-over", "C01", "src/compound.rs", "        if self.offset >= self.data.len() {\n            self.is_over = true;\n        }", "        if self.offset > self.data.len() {\n            self.is_over = true;\n        }"),
    # C08
    ("c08-min-len-le", "C08", "src/utils.rs", "        if packet.len() < P::MIN_PACKET_LEN {", "        if packet.len() + 4 < P::MIN_PACKET_LEN {"),
    ("c08-padding-zero-dropped", "C08", "src/utils.rs", "            if padding == 0 {\n                return Err(RtcpParseError::InvalidPadding);\n            }", "            if padding == 0 && packet.len() < 8 {\n                return Err(RtcpParseError::InvalidPadding);\n            }"),
    ("c08-unknown-too-large", "C08", "src/compound.rs", "        if data.len() > length {\n            return Err(RtcpParseError::TooLarge {", "        if data.len() > length + 3 {\n            return Err(RtcpParseError::TooLarge {"),
    ("c08-rr-count-20", "C08", "src/receiver.rs", "            Self::MIN_PACKET_LEN + parser::parse_count(data) as usize * ReportBlock::EXPECTED_SIZE;", "            Self::MIN_PACKET_LEN + parser::parse_count(data) as usize * 20;"),
    ("c08-bye-count-dropped", "C08", "src/bye.rs", "        if reason_len_offset > data.len() {", "        if reason_len_offset > data.len() + 4 {"),
    ("c08-count-accessor-mask", "C08", "src/utils.rs", "        packet[0] & 0x1f\n", "        packet[0] & 0x0f\n"),
    ("c08-dispatch-swap", "C08", "src/compound.rs", "            crate::PayloadFeedback::PACKET_TYPE => {\n                crate::PayloadFeedback::parse(data).map(Packet::PayloadFeedback)\n            }", "            crate::PayloadFeedback::PACKET_TYPE if data.len() != 20 => {\n                crate::PayloadFeedback::parse(data).map(Packet::PayloadFeedback)\n            }"),
    # C11
    ("c11-accept-leftover", "C11", "src/compound.rs", "            if data.len() < offset + Unknown::MIN_PACKET_LEN {\n                return Err(RtcpParseError::Truncated {\n                    expected: offset + Unknown::MIN_PACKET_LEN,\n                    actual: data.len(),\n                });\n            }", "            if data.len() < offset + Unknown::MIN_PACKET_LEN {\n                if offset > 0 {\n                    break;\n                }\n                return Err(RtcpParseError::Truncated {\n                    expected: offset + Unknown::MIN_PACKET_LEN,\n                    actual: data.len(),\n                });\n            }"),
    ("c11-no-stop-after-error", "C11", "src/compound.rs", "        self.is_over = res.is_err();\n", "        self.is_over = res.is_err() && self.offset == 0;\n"),
    ("c11-reject-exact-fit", "C11", "src/compound.rs", "            if data.len() < offset + packet_length {", "            if data.len() <= offset + packet_length && offset > 40 {"),
    # C18
    ("c18-expected-in-words", "C18", "src/utils.rs", "            return Err(RtcpParseError::Truncated {\n                expected: length,\n                actual: packet.len(),", "            return Err(RtcpParseError::Truncated {\n                expected: length / 4,\n                actual: packet.len(),"),
    ("c18-swap-expected-actual", "C18", "src/utils.rs", "            return Err(RtcpParseError::TooLarge {\n                expected: length,\n                actual: packet.len(),", "            return Err(RtcpParseError::TooLarge {\n                expected: packet.len(),\n                actual: length,"),
    ("c18-min-reports-header-len", "C18", "src/utils.rs", "            return Err(RtcpParseError::Truncated {\n                expected: P::MIN_PACKET_LEN,", "            return Err(RtcpParseError::Truncated {\n                expected: 4.max(packet.len() + 1),"),
    ("c18-mismatch-requested-twice", "C18", "src/utils.rs", "                actual: parse_packet_type(packet),\n                requested: P::PACKET_TYPE,", "                actual: P::PACKET_TYPE,\n                requested: P::PACKET_TYPE,"),
    ("c18-compound-omits-offset", "C18", "src/compound.rs", "                return Err(RtcpParseError::Truncated {\n                    expected: offset + packet_length,", "                return Err(RtcpParseError::Truncated {\n                    expected: packet_length,"),
    ("c18-version-reports-2", "C18", "src/compound.rs", "            return Err(RtcpParseError::UnsupportedVersion(version));", "            return Err(RtcpParseError::UnsupportedVersion(Self::VERSION));"),
    # C06
    ("c06-bye-reason-len-byte", "C06", "src/bye.rs", "            size += 1 + reason_len;", "            size += reason_len;"),
    ("c06-sdes-chunk-terminator", "C06", "src/sdes.rs", "        Ok(pad_to_4bytes(4 + items_size + 1))", "        Ok(pad_to_4bytes(4 + items_size))"),
    ("c06-sr-padding-dropped", "C06", "src/sender.rs", "        Ok(SenderReport::MIN_PACKET_LEN + report_blocks_size + self.padding as usize)", "        Ok(SenderReport::MIN_PACKET_LEN + report_blocks_size + (self.padding as usize & !7))"),
    ("c06-write-into-le", "C06", "src/lib.rs", "        if buf.len() < req_size {\n            return Err(RtcpWriteError::OutputTooSmall(req_size));\n        }\n\n        Ok(self.write_into_unchecked(&mut buf[..req_size]))\n    }\n}\n\nimpl<T: RtcpPacketWriter> RtcpPacketWriterExt", "        if buf.len() <= req_size && req_size > 64 {\n            return Err(RtcpWriteError::OutputTooSmall(req_size));\n        }\n        if buf.len() < req_size {\n            return Err(RtcpWriteError::OutputTooSmall(req_size));\n        }\n\n        Ok(self.write_into_unchecked(&mut buf[..req_size]))\n    }\n}\n\nimpl<T: RtcpPacketWriter> RtcpPacketWriterExt"),
    ("c06-item-priv-size", "C06", "src/sdes.rs", "            Ok(3 + prefix_len + value_len)", "            Ok(2 + prefix_len + value_len + (prefix_len > 0) as usize)"),
    ("c06-chunk-too-small-n", "C06", "src/sdes.rs", "    pub fn write_into(&self, buf: &mut [u8]) -> Result<usize, RtcpWriteError> {\n        let req_size = self.calculate_size()?;\n        if buf.len() < req_size {\n            return Err(RtcpWriteError::OutputTooSmall(req_size));\n        }\n\n        Ok(self.write_into_unchecked(&mut buf[..req_size]))\n    }\n\n    /// Adds an item", "    pub fn write_into(&self, buf: &mut [u8]) -> Result<usize, RtcpWriteError> {\n        let req_size = self.calculate_size()?;\n        if buf.len() < req_size {\n            return Err(RtcpWriteError::OutputTooSmall(req_size - buf.len()));\n        }\n\n        Ok(self.write_into_unchecked(&mut buf[..req_size]))\n    }\n\n    /// Adds an item"),
    # C17
    ("c17-bye-fill-dropped", "C17", "src/bye.rs", "            if end > idx {\n                buf[idx..end].fill(0);\n            }", "            if end > idx + 1 {\n                buf[idx..end].fill(0);\n            }"),
    ("c17-padding-fill-skipped", "C17", "src/utils.rs", "            buf[0..end - 1].fill(0);", "            buf[1..end - 1].fill(0);"),
    ("c17-app-name-fill", "C17", "src/app.rs", "        if end < 12 {\n            buf[end..12].fill(0);\n        }", "        if end < 11 {\n            buf[end..12].fill(0);\n        }"),
    ("c17-rpsi-fill", "C17", "src/feedback/rpsi.rs", "        while idx < end {\n            buf[idx] = 0;\n            idx += 1;\n        }", "        while idx + 1 < end {\n            buf[idx] = 0;\n            idx += 1;\n        }\n        idx = end;"),
    ("c17-sdes-chunk-fill", "C17", "src/sdes.rs", "        let end = pad_to_4bytes(idx + 1);\n        if end > idx {\n            buf[idx..end].fill(0);\n        }", "        let end = pad_to_4bytes(idx + 1);\n        if end > idx {\n            buf[idx] = 0;\n        }"),
    ("c17-clear-on-too-small", "C17", "src/lib.rs", "        if buf.len() < req_size {\n            return Err(RtcpWriteError::OutputTooSmall(req_size));\n        }\n\n        Ok(self.write_into_unchecked(&mut buf[..req_size]))\n    }\n}\n\nimpl<T: RtcpPacketWriter> RtcpPacketWriterExt", "        if buf.len() < req_size {\n            if buf.len() > 17 {\n                buf[17] = 0;\n            }\n            return Err(RtcpWriteError::OutputTooSmall(req_size));\n        }\n\n        Ok(self.write_into_unchecked(&mut buf[..req_size]))\n    }\n}\n\nimpl<T: RtcpPacketWriter> RtcpPacketWriterExt"),
    ("c17-unknown-type-or", "C17", "src/compound.rs", "    fn write_into_unchecked(&self, buf: &mut [u8]) -> usize {\n        write_header_unchecked::<Unknown>(self.padding, self.count, buf);\n        buf[1] = self.type_;", "    fn write_into_unchecked(&self, buf: &mut [u8]) -> usize {\n        let stale = buf[1];\n        write_header_unchecked::<Unknown>(self.padding, self.count, buf);\n        buf[1] = self.type_ | (stale & 1);"),
    # C20
    ("c20-reason-owned-sources", "C20", "src/bye.rs", "            padding: self.padding,\n            sources: self.sources,\n            reason: reason.into().into_owned().into(),", "            padding: self.padding,\n            sources: Vec::new(),\n            reason: reason.into().into_owned().into(),"),
    ("c20-into-owned-type", "C20", "src/sdes.rs", "        SdesItemBuilder {\n            type_: self.type_,\n            prefix: self.prefix.into_owned().into(),", "        SdesItemBuilder {\n            type_: if self.prefix.is_empty() { self.type_ } else { SdesItem::PRIV },\n            prefix: self.prefix.into_owned().into(),"),
    ("c20-native-data-owned-pt", "C20", "src/feedback/rpsi.rs", "        RpsiBuilder {\n            payload_type: self.payload_type,", "        RpsiBuilder {\n            payload_type: self.payload_type & 0x3f,"),
    ("c20-fir-keeps-first", "C20", "src/feedback/fir.rs", "            .and_modify(|entry| {\n                *entry = sequence;\n            })\n", ""),
    ("c20-pb-forward-wrong", "C20", "src/compound.rs", "            Bye(this) => this.calculate_size(),\n            Rr(this) => this.calculate_size(),", "            Bye(this) => this.calculate_size().map(|n| n + (n & 4)),\n            Rr(this) => this.calculate_size(),"),
    ("c20-padding-setter-or", "C20", "src/app.rs", "    pub fn padding(mut self, padding: u8) -> Self {\n        self.padding = padding;", "    pub fn padding(mut self, padding: u8) -> Self {\n        self.padding |= padding;"),
]

# behaviour-preserving edits: every check must stay at exit 0
PRESERVING = [
    ("keep-reorder-sr-count-check", "src/sender.rs", "        let req_len =\n            Self::MIN_PACKET_LEN + parser::parse_count(data) as usize * ReportBlock::EXPECTED_SIZE;", "        let n_blocks = parser::parse_count(data) as usize;\n        let req_len = ReportBlock::EXPECTED_SIZE * n_blocks + Self::MIN_PACKET_LEN;"),
    ("keep-bye-capacity", "src/bye.rs", "            sources: Vec::with_capacity(Bye::MAX_SOURCES as usize),", "            sources: Vec::new(),"),
    ("keep-sli-chunks", "src/feedback/sli.rs", "        if self.i + 3 >= self.data.len() {\n            return None;\n        }", "        if self.data.len() < self.i + 4 {\n            return None;\n        }"),
    ("keep-compound-iter-order", "src/compound.rs", "        self.is_over = res.is_err();\n\n        self.offset += packet_length;\n        if self.offset >= self.data.len() {\n            self.is_over = true;\n        }", "        self.offset += packet_length;\n        self.is_over = res.is_err() || self.offset >= self.data.len();"),
    ("keep-padding-writer", "src/utils.rs", "            buf[0..end - 1].fill(0);\n            buf[end - 1] = padding;", "            for b in buf[..end].iter_mut() {\n                *b = 0;\n            }\n            buf[end - 1] = padding;"),
    ("keep-fir-sorted-output", "src/feedback/fir.rs", "        for (ssrc, sequence) in self.ssrc_seq.iter() {", "        let mut entries: Vec<(&u32, &u8)> = self.ssrc_seq.iter().collect();\n        entries.sort();\n        for (ssrc, sequence) in entries {"),
    ("keep-unknown-check-order", "src/compound.rs", "        check_padding(self.padding)?;\n\n        if self.data.len() % 4 != 0 {", "        check_padding(self.padding)?;\n\n        if self.data.len() & 3 != 0 {"),
    ("keep-rb-write", "src/report_block.rs", "        buf[4..8].copy_from_slice(&self.cumulative_lost.to_be_bytes());\n        buf[4] = self.fraction_lost;", "        buf[4] = self.fraction_lost;\n        buf[5..8].copy_from_slice(&self.cumulative_lost.to_be_bytes()[1..]);"),
]


def make_scratch():
    shutil.rmtree(SCRATCH, ignore_errors=True)
    os.makedirs(SCRATCH)
    # a copy of /repo's working tree (without build output) and of the simulator crate
    sh(f"rsync -a --exclude target --exclude .git /repo/ {SCRATCH}/repo/")
    # the simulator as committed (HEAD), so that edits in progress in /verif/sim cannot leak in
    sh(f"git -C {VERIF} archive HEAD sim | tar -x -C {SCRATCH}")
    cargo = open(f"{SCRATCH}/sim/Cargo.toml").read().replace('path = "/repo"', f'path = "{SCRATCH}/repo"')
    open(f"{SCRATCH}/sim/Cargo.toml", "w").write(cargo)
    cfg = open(f"{SCRATCH}/sim/.cargo/config.toml").read().replace("/verif/.target", f"{SCRATCH}/target")
    open(f"{SCRATCH}/sim/.cargo/config.toml", "w").write(cfg)


def scratch_env():
    return dict(ENV, CARGO_TARGET_DIR=f"{SCRATCH}/target", VERIF_REPLAY_DIR=f"{SCRATCH}/replays", VERIF_EVIDENCE_DIR=f"{SCRATCH}/evidence", VERIF_KNOWN=f"{VERIF}/known_findings.json")


def build_and_test_scratch():
    rc, out = sh("cargo test --workspace --no-fail-fast --offline 2>&1 | grep -E '^test result|^error' ", cwd=f"{SCRATCH}/repo", env=dict(ENV, CARGO_TARGET_DIR=f"{SCRATCH}/repo-target"))
    ok = out.count("test result: ok") >= 2 and "FAILED" not in out and "error" not in out
    passed = sum(int(l.split(" passed")[0].split()[-1]) for l in out.splitlines() if " passed" in l)
    return ok and passed >= 94, passed, out


def run_scratch(prop, quick_div=1):
    env = scratch_env()
    rc, out = sh("cargo build --release --offline 2>&1 | tail -3", cwd=f"{SCRATCH}/sim", env=env)
    binp = f"{SCRATCH}/target/release/rtcp-sim"
    if not os.path.exists(binp):
        return 2, "build failed: " + out, None
    rc, out = sh(f"{binp} run {prop} quick", env=env, timeout=1800)
    # as ./check does: the first quarter of the episodes again on the plain-release build
    if rc == 0:
        sh("cargo build --profile plain --offline 2>&1 | tail -3", cwd=f"{SCRATCH}/sim", env=env)
        plain = f"{SCRATCH}/target/plain/rtcp-sim"
        if os.path.exists(plain):
            penv = dict(env, VERIF_PROFILE="plain", VERIF_EPISODE_DIV="4", VERIF_EVIDENCE_DIR=f"{SCRATCH}/evidence-plain")
            rc, out2 = sh(f"{plain} run {prop} quick", env=penv, timeout=1800)
            out += out2
    # as ./check does: the deep-chain step on an unoptimised build for C01 / C11
    if rc == 0 and prop in ("C01", "C11"):
        sh("cargo build --offline 2>&1 | tail -3", cwd=f"{SCRATCH}/sim", env=env)
        dbg = f"{SCRATCH}/target/debug/rtcp-sim"
        if os.path.exists(dbg):
            rc2, out2 = sh(f"{dbg} deep {prop}", env=env, timeout=600)
            out += out2
            rc = rc2
    replay = None
    for l in out.splitlines():
        if l.startswith("VIOLATION "):
            replay = l.split("replay=")[1].strip()
            break
    return rc, out, replay


def replay_with(release_bin, replay, env=None):
    """Replay a file with the release binary, or with the unoptimised sibling for dev-profile files."""
    try:
        head = open(replay).read()
        dev = '"profile": "dev"' in head
        plain = '"profile": "plain"' in head
    except OSError:
        dev = plain = False
    if plain:
        pbin = release_bin.replace("/release/", "/plain/")
        if release_bin == BIN:
            sh(f"{VERIF}/check build")
        return sh(f"{pbin} replay {replay}", env=dict(env or ENV, VERIF_PROFILE="plain"))
    if dev:
        dbg = release_bin.replace("/release/", "/debug/")
        if release_bin == BIN:
            sh(f"{VERIF}/check build")
        prop = "C11" if '"property": "C11"' in open(replay).read(4096) else "C01"
        return sh(f"{dbg} deep {prop} {replay}", env=env)
    return sh(f"{release_bin} replay {replay}", env=env)


def apply_edit(path, old, new):
    s = open(path).read()
    if old not in s:
        return False
    open(path, "w").write(s.replace(old, new, 1))
    return True


def sensitivity(only):
    rc, out = sh(f"{VERIF}/check build")
    if rc != 0:
        print(out)
        return 2
    results = []
    bad = 0
    for (name, prop, file, old, new) in BREAKING:
        if only and name not in only and prop not in only:
            continue
        make_scratch()
        if not apply_edit(f"{SCRATCH}/repo/{file}", old, new):
            print(f"{name}: EDIT DOES NOT APPLY (source moved?)")
            bad += 1
            continue
        ok, passed, tout = build_and_test_scratch()
        t0 = time.time()
        rc, out, replay = run_scratch(prop)
        dt = time.time() - t0
        verdict = "caught" if rc == 1 and replay else f"MISSED (rc={rc})"
        pristine = ""
        if rc == 1 and replay:
            # the replay must reproduce against the mutated copy and pass on the pristine tree
            rc2, o2 = replay_with(f"{SCRATCH}/target/release/rtcp-sim", replay, env=scratch_env())
            rc3, o3 = replay_with(BIN, replay)
            pristine = f"replay: mutated rc={rc2}, pristine rc={rc3}"
            if rc2 != 1 or rc3 != 0:
                verdict = "REPLAY INCONSISTENT"
        cls = [l for l in out.splitlines() if l.startswith("#   class=")]
        print(f"{name}: suite {'passes' if ok else 'FAILS'} ({passed} tests); {prop} {verdict} in {dt:.0f}s; {pristine}; {cls[0][:140] if cls else ''}")
        if "caught" not in verdict:
            bad += 1
            print("   " + "\n   ".join(out.splitlines()[-4:]))
        results.append({"name": name, "property": prop, "suite_passes": ok, "verdict": verdict})
        shutil.rmtree(SCRATCH, ignore_errors=True)
    if not only or "preserving" in only:
        for (name, file, old, new) in PRESERVING:
            make_scratch()
            if not apply_edit(f"{SCRATCH}/repo/{file}", old, new):
                print(f"{name}: EDIT DOES NOT APPLY (source moved?)")
                bad += 1
                continue
            ok, passed, tout = build_and_test_scratch()
            alarms = []
            for p in PROPS:
                rc, out, replay = run_scratch(p)
                if rc != 0:
                    alarms.append(f"{p} rc={rc} " + " ".join(l for l in out.splitlines() if "class=" in l)[:160])
            print(f"{name}: suite {'passes' if ok else 'FAILS'} ({passed}); {'all 7 checks quiet' if not alarms else 'FALSE ALARM: ' + '; '.join(alarms)}")
            if alarms or not ok:
                bad += 1
            results.append({"name": name, "property": "-", "suite_passes": ok, "verdict": "quiet" if not alarms else "false alarm"})
            shutil.rmtree(SCRATCH, ignore_errors=True)
    json.dump(results, open(f"{VERIF}/selftest_sensitivity_last.json", "w"), indent=1)
    print("sensitivity:", "OK" if bad == 0 else f"{bad} FAILURES")
    return 0 if bad == 0 else 2


def seeded(only):
    """Run every check against each independently written change under /verif/seeded."""
    rc, out = sh(f"{VERIF}/check build")
    base = f"{VERIF}/seeded"
    bad = 0
    for name in sorted(os.listdir(base)) if os.path.isdir(base) else []:
        if only and name not in only:
            continue
        meta = json.load(open(f"{base}/{name}/meta.json"))
        make_scratch()
        rc, out = sh(f"patch -p1 -s < {base}/{name}/patch.diff", cwd=f"{SCRATCH}/repo")
        if rc != 0:
            print(f"{name}: patch does not apply: {out[-200:]}")
            bad += 1
            continue
        owner_only = os.environ.get("VERIF_SEEDED_OWNER_ONLY") == "1"
        if owner_only:
            # the suite result and the other checks' columns stay as recorded when the change was added
            ok, passed = meta.get("suite_passes_with_change", True), 94
            caught_by = {k: v for k, v in meta.get("caught_by", {}).items() if k != meta["property"]}
        else:
            ok, passed, _ = build_and_test_scratch()
            caught_by = {}
        for p in ([meta["property"]] if owner_only else PROPS):
            rc, out, replay = run_scratch(p)
            if rc == 1 and replay:
                cls = [l for l in out.splitlines() if l.startswith("#   class=")]
                # the replay must pass on the pristine tree
                rc3, _ = replay_with(BIN, replay)
                caught_by[p] = {"class": cls[0][len("#   class="):][:200] if cls else "", "replay_passes_on_pristine_tree": rc3 == 0}
            elif rc != 0:
                caught_by[p] = {"class": f"harness rc={rc}", "replay_passes_on_pristine_tree": False}
        owner = meta["property"]
        real = sorted(p for p, c in caught_by.items() if not c["class"].startswith("harness"))
        stopped = sorted(p for p, c in caught_by.items() if c["class"].startswith("harness"))
        print(f"{name}: suite {'passes' if ok else 'FAILS'} ({passed}); breaks {owner}; caught by {real or 'NOTHING'}" + (f"; exit 2 from {stopped}" if stopped else "") + ("" if owner in real else f"  <-- NOT caught by its own property's check"))
        for p, c in caught_by.items():
            print(f"     {p}: {c['class'][:150]}")
        meta["suite_passes_with_change"] = ok
        meta["caught_by"] = caught_by
        json.dump(meta, open(f"{base}/{name}/meta.json", "w"), indent=1)
        if owner not in real:
            bad += 1
        shutil.rmtree(SCRATCH, ignore_errors=True)
    print("seeded:", "OK" if bad == 0 else f"{bad} MISSED by the owning check")
    return 0 if bad == 0 else 2


if __name__ == "__main__":
    cmd = sys.argv[1] if len(sys.argv) > 1 else ""
    try:
        if cmd == "determinism":
            sys.exit(determinism(int(sys.argv[2]) if len(sys.argv) > 2 else 2000))
        elif cmd == "sensitivity":
            sys.exit(sensitivity(sys.argv[2:]))
        elif cmd == "seeded":
            sys.exit(seeded(sys.argv[2:]))
        else:
            print(__doc__)
            sys.exit(2)
    finally:
        shutil.rmtree(SCRATCH, ignore_errors=True)
