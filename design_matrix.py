#!/usr/bin/env python3
"""Replace the seeded-change matrix in DESIGN.md (section 14.5) by the one generated from /verif/seeded/*/meta.json."""
import subprocess, os
here = os.path.dirname(os.path.abspath(__file__))
m = subprocess.run(["python3", os.path.join(here, "seeded_matrix.py")], capture_output=True, text=True).stdout.strip("\n")
p = os.path.join(here, "DESIGN.md")
s = open(p).read()
i = s.index("| change | breaks | what it needs |")
j = s.index("\n\n", i)
s = s[:i] + m + s[j:]
open(p, "w").write(s)
print("matrix rows:", m.count("\n") - 1)
