#!/usr/bin/env python3
"""seeded_add.py <worktree> <k> <property> <name>: keep a confirmed sub-agent change under /verif/seeded/<name>/."""
import json, os, shutil, sys
wt, k, prop, name = sys.argv[1:5]
d = f"/verif/seeded/{name}"
os.makedirs(d, exist_ok=True)
shutil.copy(f"{wt}/mutants/m{k}.diff", f"{d}/patch.diff")
shutil.copy(f"{wt}/mutants/m{k}_demo.rs", f"{d}/demo.rs")
desc = open(f"{wt}/mutants/m{k}.md").read().strip()
meta = {
    "property": prop,
    "origin": "written by an independent sub-agent that was given only the property text and a scratch worktree",
    "description_by_author": desc,
    "confirmed_by_me": "seeded_validate.sh: clean tree + patch -> existing 94 tests pass; + demo.rs in tests/ -> demo fails; clean tree + demo.rs -> demo passes",
    "how_checks_were_run": "selftest.py seeded: patch applied to a scratch copy of /repo under /var/tmp, simulator rebuilt against it, every check's quick tier run; also applied to /repo itself with git apply / git checkout for the owning check",
}
json.dump(meta, open(f"{d}/meta.json", "w"), indent=1)
print("kept", d)
