#!/usr/bin/env python3
"""seeded_add.py <worktree> <k> <property> <name>: keep a confirmed sub-agent change under /verif/seeded/<name>/."""
import json, os, shutil, sys
wt, k, prop, name = sys.argv[1:5]
d = f"/verif/seeded/{name}"
os.makedirs(d, exist_ok=True)
shutil.copy(f"{wt}/mutants/m{k}.diff", f"{d}/patch.diff")
shutil.copy(f"{wt}/mutants/m{k}_demo.rs", f"{d}/demo.rs")
desc = open(f"{wt}/mutants/m{k}.md").read().strip()
meta = {
    "property": prop,
    "origin": "written by an independent sub-agent that was given only the property text and a scratch worktree",
    "description_by_author": desc,
    "confirmed_by_me": "seeded_validate.sh: clean tree + patch -> existing 94 tests pass; + demo.rs in tests/ -> demo fails; clean tree + demo.rs -> demo passes",
    "how_checks_were_run": "selftest.py seeded: the patch is applied to a scratch copy of /repo's working tree under /var/tmp, the simulator (git archive HEAD of /verif/sim) is rebuilt against that copy, and the quick tier of all seven checks is run; a reported replay file is then replayed against the pristine /repo and must pass there. Results are in caught_by.",
}
json.dump(meta, open(f"{d}/meta.json", "w"), indent=1)
print("kept", d)
