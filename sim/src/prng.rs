//! Self-contained PRNG: splitmix64 seeding + xoshiro256**.
//!
//! No crate dependency so that the stream for a given seed is identical on every
//! toolchain.  Independent sub-streams are derived by hashing `(seed, stream name)`,
//! so removing a fault during minimisation does not shift the workload's draws.

#[inline]
pub fn splitmix64(x: u64) -> u64 {
    let mut z = x.wrapping_add(0x9e37_79b9_7f4a_7c15);
    z = (z ^ (z >> 30)).wrapping_mul(0xbf58_476d_1ce4_e5b9);
    z = (z ^ (z >> 27)).wrapping_mul(0x94d0_49bb_1331_11eb);
    z ^ (z >> 31)
}

/// FNV-1a over bytes (used for stream names, trace hashes, state signatures).
#[inline]
pub fn fnv1a(init: u64, bytes: &[u8]) -> u64 {
    let mut h = init;
    for b in bytes {
        h = (h ^ *b as u64).wrapping_mul(0x0000_0100_0000_01b3);
    }
    h
}
pub const FNV_INIT: u64 = 0xcbf2_9ce4_8422_2325;

#[derive(Clone, Debug)]
pub struct Rng {
    s: [u64; 4],
}

impl Rng {
    pub fn new(seed: u64) -> Self {
        let mut x = seed;
        let mut s = [0u64; 4];
        for v in s.iter_mut() {
            x = x.wrapping_add(0x9e37_79b9_7f4a_7c15);
            *v = splitmix64(x);
        }
        if s == [0; 4] {
            s[0] = 1;
        }
        Rng { s }
    }

    /// Independent sub-stream `name` of episode seed `seed`.
    pub fn derive(seed: u64, name: &str) -> Self {
        Rng::new(splitmix64(seed ^ fnv1a(FNV_INIT, name.as_bytes())))
    }

    #[inline]
    pub fn next_u64(&mut self) -> u64 {
        let r = self.s[1].wrapping_mul(5).rotate_left(7).wrapping_mul(9);
        let t = self.s[1] << 17;
        self.s[2] ^= self.s[0];
        self.s[3] ^= self.s[1];
        self.s[1] ^= self.s[2];
        self.s[0] ^= self.s[3];
        self.s[2] ^= t;
        self.s[3] = self.s[3].rotate_left(45);
        r
    }

    #[inline]
    pub fn u32(&mut self) -> u32 {
        (self.next_u64() >> 32) as u32
    }
    #[inline]
    pub fn u16(&mut self) -> u16 {
        (self.next_u64() >> 48) as u16
    }
    #[inline]
    pub fn u8(&mut self) -> u8 {
        (self.next_u64() >> 56) as u8
    }

    /// Uniform in `0..n` (n > 0).  Multiply-shift; bias is irrelevant here.
    #[inline]
    pub fn below(&mut self, n: usize) -> usize {
        debug_assert!(n > 0);
        (((self.next_u64() >> 32) * n as u64) >> 32) as usize
    }

    /// Uniform in `lo..=hi`.
    #[inline]
    pub fn range(&mut self, lo: usize, hi: usize) -> usize {
        if lo >= hi {
            // degenerate ranges (limit below the preferred minimum) collapse to the upper bound
            let _ = self.next_u64();
            return hi;
        }
        lo + self.below(hi - lo + 1)
    }

    /// True with probability `num/den`.
    #[inline]
    pub fn chance(&mut self, num: usize, den: usize) -> bool {
        self.below(den) < num
    }

    pub fn pick<'a, T>(&mut self, xs: &'a [T]) -> &'a T {
        &xs[self.below(xs.len())]
    }

    pub fn bytes(&mut self, n: usize) -> Vec<u8> {
        let mut v = Vec::with_capacity(n);
        while v.len() < n {
            let x = self.next_u64().to_le_bytes();
            let k = (n - v.len()).min(8);
            v.extend_from_slice(&x[..k]);
        }
        v
    }

    /// A u32 biased towards interesting values (zero bytes, limits).
    pub fn u32_biased(&mut self) -> u32 {
        match self.below(10) {
            0 => 0,
            1 => u32::MAX,
            2 => self.u32() & 0x00ff_ffff, // leading zero byte
            3 => self.u32() & 0x0000_ffff,
            4 => self.u32() & 0xff,
            5 => self.u32() & 0xffff_ff00, // trailing zero byte
            _ => self.u32(),
        }
    }

    pub fn shuffle<T>(&mut self, xs: &mut [T]) {
        for i in (1..xs.len()).rev() {
            let j = self.below(i + 1);
            xs.swap(i, j);
        }
    }
}
