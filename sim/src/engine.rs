//! Episode scheduler, statistics, violation handling, minimisation, replay files, evidence.
//!
//! An episode is single-threaded and its outcome is a function of (VERIF_SEED, property,
//! episode index, code under test) alone.  OS threads only run independent episodes in
//! parallel; results are merged with order-independent operations (sums, set unions, xor,
//! lowest-index selection), so verdict and evidence do not depend on the worker count.

use crate::json::J;
use crate::prng::{fnv1a, splitmix64, FNV_INIT};
use std::collections::{BTreeMap, HashSet};
use std::sync::atomic::{AtomicBool, AtomicU64, Ordering};
use std::sync::Mutex;
use std::time::{Duration, Instant};

#[derive(Clone, Copy, Debug, PartialEq, Eq)]
pub enum Tier {
    Quick,
    Thorough,
}
impl Tier {
    pub fn name(&self) -> &'static str {
        match self {
            Tier::Quick => "quick",
            Tier::Thorough => "thorough",
        }
    }
}

#[derive(Clone, Debug)]
pub struct Violation {
    pub class: String,
    pub detail: String,
    pub episode: u64,
    /// explicit, PRNG-free case that `Check::replay` consumes
    pub case: J,
    /// how honest traffic was turned into this case (human-readable, not needed for replay)
    pub provenance: J,
}

#[derive(Default)]
pub struct Stats {
    pub episodes: u64,
    pub evaluations: u64,
    pub events: u64,
    pub counters: BTreeMap<String, u64>,
    pub faults: BTreeMap<String, u64>,
    pub probes: BTreeMap<String, u64>,
    pub sigs: HashSet<u64>,
    pub trace_digest: u64,
    pub inconclusive_panics: u64,
    /// kind -> (episode index, sample)
    pub samples: BTreeMap<String, (u64, J)>,
}

impl Stats {
    pub fn count(&mut self, k: &str, n: u64) {
        *self.counters.entry(k.to_string()).or_insert(0) += n;
    }
    pub fn fault(&mut self, k: &str, n: u64) {
        *self.faults.entry(k.to_string()).or_insert(0) += n;
    }
    pub fn probe(&mut self, k: &str, n: u64) {
        *self.probes.entry(k.to_string()).or_insert(0) += n;
    }
    pub fn sig(&mut self, parts: &[u64]) {
        let mut h = FNV_INIT;
        for p in parts {
            h = fnv1a(h, &p.to_le_bytes());
        }
        self.sigs.insert(h);
    }
    /// keep the sample from the lowest episode index per kind (deterministic across worker counts)
    pub fn sample(&mut self, kind: &str, episode: u64, mk: impl FnOnce() -> J) {
        match self.samples.get(kind) {
            Some((e, _)) if *e <= episode => {}
            _ => {
                self.samples.insert(kind.to_string(), (episode, mk()));
            }
        }
    }
    pub fn wants_sample(&self, kind: &str, episode: u64) -> bool {
        !matches!(self.samples.get(kind), Some((e, _)) if *e <= episode)
    }
    pub fn merge(&mut self, o: Stats) {
        self.episodes += o.episodes;
        self.evaluations += o.evaluations;
        self.events += o.events;
        self.inconclusive_panics += o.inconclusive_panics;
        self.trace_digest ^= o.trace_digest;
        for (k, v) in o.counters {
            *self.counters.entry(k).or_insert(0) += v;
        }
        for (k, v) in o.faults {
            *self.faults.entry(k).or_insert(0) += v;
        }
        for (k, v) in o.probes {
            *self.probes.entry(k).or_insert(0) += v;
        }
        self.sigs.extend(o.sigs);
        for (k, (e, j)) in o.samples {
            match self.samples.get(&k) {
                Some((e0, _)) if *e0 <= e => {}
                _ => {
                    self.samples.insert(k, (e, j));
                }
            }
        }
    }
}

/// What the watchdog knows about a worker: the case it published before entering the call.
#[derive(Default)]
pub struct Slot {
    pub since: Option<Instant>,
    pub episode: u64,
    pub case: Option<J>,
    /// cheap form of a published case: the delivered bytes and the reader tape (turned into a
    /// replayable case by `Check::raw_case` only if the watchdog needs it)
    pub raw: Vec<u8>,
    pub raw_tape: Vec<u32>,
    pub has_raw: bool,
    /// when the current episode started (every check; set by the scheduler)
    pub ep_since: Option<Instant>,
}

pub struct Ctx<'a> {
    pub stats: &'a mut Stats,
    pub slot: &'a Mutex<Slot>,
    pub tier: Tier,
    /// crash triage: every published delivery is appended here before it is executed
    pub journal: Option<&'a Mutex<std::fs::File>>,
}

impl<'a> Ctx<'a> {
    /// Publish the case about to be executed (for the hang watchdog).
    pub fn publish(&self, episode: u64, case: impl FnOnce() -> J) {
        let mut s = self.slot.lock().unwrap();
        s.since = Some(Instant::now());
        s.episode = episode;
        s.case = Some(case());
    }
    /// Publish a delivery cheaply (no JSON is built unless the watchdog fires).
    pub fn publish_raw(&self, episode: u64, bytes: &[u8], tape: &[u32]) {
        if let Some(j) = self.journal {
            use std::io::Write;
            let line = J::obj().set("deliver", crate::json::hex(bytes)).set("tape", tape.to_vec()).to_string();
            let mut f = j.lock().unwrap();
            let _ = writeln!(f, "{line}");
            let _ = f.flush();
        }
        let mut s = self.slot.lock().unwrap();
        s.since = Some(Instant::now());
        s.episode = episode;
        s.case = None;
        s.raw.clear();
        s.raw.extend_from_slice(bytes);
        s.raw_tape.clear();
        s.raw_tape.extend_from_slice(tape);
        s.has_raw = true;
    }
    pub fn unpublish(&self) {
        let mut s = self.slot.lock().unwrap();
        s.since = None;
        s.case = None;
        s.has_raw = false;
    }
}

pub trait Check: Sync {
    fn id(&self) -> &'static str;
    fn level(&self) -> &'static str;
    fn episodes(&self, tier: Tier) -> u64;
    /// Explore one episode; push violations (explicit cases).
    fn run_episode(&self, seed: u64, idx: u64, ctx: &mut Ctx<'_>, out: &mut Vec<Violation>);
    /// Re-execute an explicit case; Some((class, detail)) if the property is violated.
    fn replay(&self, case: &J, log: Option<&mut Vec<String>>) -> Result<Option<(String, String)>, String>;
    /// Candidate simplifications of an explicit case.
    fn shrink(&self, case: &J) -> Vec<J>;
    fn rule(&self) -> String;
    fn assumptions(&self) -> Vec<String>;
    fn components(&self) -> J;
    fn exhaustive_dimensions(&self) -> Vec<String>;
    /// whether two violation classes count as "the same violation" for the minimiser
    fn same_class(&self, a: &str, b: &str) -> bool {
        a == b
    }
    /// whether a stuck call is this property's violation (C01) or a harness error
    fn hang_is_violation(&self) -> bool {
        false
    }
    /// explicit case for a delivery published with `Ctx::publish_raw`
    fn raw_case(&self, bytes: &[u8], tape: &[u32]) -> J {
        J::obj().set("deliver", crate::json::hex(bytes)).set("tape", tape.to_vec())
    }
}

pub fn prop_tag(id: &str) -> u64 {
    fnv1a(FNV_INIT, id.as_bytes())
}

pub fn episode_seed(verif_seed: u64, id: &str, idx: u64) -> u64 {
    splitmix64(verif_seed ^ prop_tag(id)).wrapping_add(idx)
}

pub struct Outcome {
    pub stats: Stats,
    pub violations: Vec<Violation>,
    pub wall: Duration,
    pub workers: usize,
    pub hang: Option<(u64, J)>,
}

/// Run episodes 0..n of `check` on `workers` threads.
pub fn explore(check: &dyn Check, verif_seed: u64, tier: Tier, n: u64, workers: usize, hang_secs: u64) -> Outcome {
    explore_range(check, verif_seed, tier, 0, n, workers, hang_secs, None)
}

/// Run episodes lo..n; with a journal, every published delivery is written out before it runs.
#[allow(clippy::too_many_arguments)]
pub fn explore_range(check: &dyn Check, verif_seed: u64, tier: Tier, lo: u64, n: u64, workers: usize, hang_secs: u64, journal: Option<&Mutex<std::fs::File>>) -> Outcome {
    let start = Instant::now();
    let next = AtomicU64::new(lo);
    // episodes above this index are skipped once a violation has been found (lowest index wins)
    let stop_after = AtomicU64::new(u64::MAX);
    let done = AtomicBool::new(false);
    let slots: Vec<Mutex<Slot>> = (0..workers).map(|_| Mutex::new(Slot::default())).collect();
    let results: Mutex<Vec<(Stats, Vec<Violation>)>> = Mutex::new(Vec::new());
    let mut hang: Option<(u64, J)> = None;
    const CHUNK: u64 = 32;

    std::thread::scope(|sc| {
        for w in 0..workers {
            let (next, stop_after, slots, results, done) = (&next, &stop_after, &slots, &results, &done);
            std::thread::Builder::new()
                // the stack a main thread gets by default on Linux: a recursion that overflows it in a
                // user's program overflows it here
                .stack_size(8 << 20)
                .spawn_scoped(sc, move || {
                    let mut stats = Stats::default();
                    let mut viols = Vec::new();
                    loop {
                        let base = next.fetch_add(CHUNK, Ordering::Relaxed);
                        if base >= n || done.load(Ordering::Relaxed) {
                            break;
                        }
                        for idx in base..(base + CHUNK).min(n) {
                            if idx > stop_after.load(Ordering::Relaxed) {
                                continue;
                            }
                            let seed = episode_seed(verif_seed, check.id(), idx);
                            let before = viols.len();
                            {
                                {
                                    let mut s = slots[w].lock().unwrap();
                                    s.ep_since = Some(Instant::now());
                                    s.episode = idx;
                                }
                                let mut ctx = Ctx { stats: &mut stats, slot: &slots[w], tier, journal };
                                // calls into rtcp-types are guarded inside the episode; an unwind that
                                // reaches this point comes from the harness itself
                                // the other party on this thread (see ambient.rs): reseeded, and everything
                                // it held dropped, at the start of every episode
                                crate::ambient::arm(seed);
                                let r = crate::guard::guarded(|| check.run_episode(seed, idx, &mut ctx, &mut viols));
                                let amb = crate::ambient::disarm();
                                if amb > 0 {
                                    ctx.stats.fault("ambient-session-steps", amb);
                                    ctx.stats.count("episodes_with_an_ambient_session", 1);
                                }
                                if let Err(p) = r {
                                    println!("# harness error: panic in harness code, property {} episode {}: {} at {}", check.id(), idx, p.msg, p.loc);
                                    std::process::exit(2);
                                }
                                ctx.unpublish();
                                slots[w].lock().unwrap().ep_since = None;
                            }
                            stats.episodes += 1;
                            if viols.len() > before {
                                // keep exploring lower indices only, and bound what is kept
                                if viols.len() > 64 {
                                    stop_after.fetch_min(idx, Ordering::Relaxed);
                                }
                            }
                        }
                    }
                    results.lock().unwrap().push((stats, viols));
                })
                .expect("spawn worker");
        }
        // watchdog (main thread)
        loop {
            std::thread::sleep(Duration::from_millis(100));
            let finished = results.lock().unwrap().len() == workers;
            if finished {
                break;
            }
            for s in slots.iter() {
                let s = s.lock().unwrap();
                if let Some(since) = s.since {
                    if since.elapsed() > Duration::from_secs(hang_secs) {
                        if let Some(case) = s.case.as_ref() {
                            hang = Some((s.episode, case.clone()));
                        } else if s.has_raw {
                            hang = Some((s.episode, check.raw_case(&s.raw, &s.raw_tape)));
                        }
                    }
                }
                // an episode that published nothing and does not finish: still never spin forever
                if hang.is_none() {
                    if let Some(ep) = s.ep_since {
                        if s.since.is_none() && ep.elapsed() > Duration::from_secs(3 * hang_secs + 60) {
                            println!(
                                "# harness error: property {} episode {} (VERIF_SEED {}) did not finish within {}s and published no case; a call into rtcp-types probably does not return (termination is property C01's concern)",
                                check.id(),
                                s.episode,
                                verif_seed,
                                3 * hang_secs + 60
                            );
                            std::process::exit(2);
                        }
                    }
                }
            }
            // a call that allocates without bound is the same kind of failure as one that never
            // returns: report the longest-running published case before the machine runs out of memory
            if hang.is_none() && rss_bytes() > rss_limit() {
                let mut oldest: Option<(Instant, u64, J)> = None;
                for s in slots.iter() {
                    let s = s.lock().unwrap();
                    let case = s.case.clone().or_else(|| if s.has_raw { Some(check.raw_case(&s.raw, &s.raw_tape)) } else { None });
                    if let (Some(since), Some(case)) = (s.since, case) {
                        if oldest.as_ref().map(|o| since < o.0).unwrap_or(true) {
                            oldest = Some((since, s.episode, case));
                        }
                    }
                }
                if let Some((_, e, c)) = oldest {
                    hang = Some((e, c));
                }
            }
            if hang.is_some() {
                // a worker is stuck inside one call: it can never be joined, so the caller
                // reports and exits the process from here
                report_hang_and_exit(check, verif_seed, hang.take().unwrap());
            }
        }
        done.store(true, Ordering::Relaxed);
    });

    let mut stats = Stats::default();
    let mut violations = Vec::new();
    for (s, v) in results.into_inner().unwrap() {
        stats.merge(s);
        violations.extend(v);
    }
    violations.sort_by(|a, b| a.episode.cmp(&b.episode).then(a.class.cmp(&b.class)));
    Outcome { stats, violations, wall: start.elapsed(), workers, hang: None }
}

fn report_hang_and_exit(check: &dyn Check, verif_seed: u64, (episode, case): (u64, J)) -> ! {
    let class = "Hang".to_string();
    let file = J::obj()
        .set("format", 1)
        .set("property", check.id())
        .set("verif_seed", verif_seed)
        .set("episode", episode)
        .set("minimised", false)
        .set("violation", J::obj().set("class", class.clone()).set("detail", "a call into rtcp-types did not return within the watchdog limit (or allocated without bound)"))
        .set("case", case);
    let path = write_replay(check.id(), verif_seed, &file);
    if check.hang_is_violation() {
        println!("VIOLATION property={} replay={}", check.id(), path);
        println!("# verdict: VIOLATION (hang) class={class}");
        std::process::exit(1);
    } else {
        println!("# harness error: a call into rtcp-types did not return; termination is property C01's concern, this check cannot continue (case written to {path})");
        std::process::exit(2);
    }
}

fn rss_bytes() -> u64 {
    std::fs::read_to_string("/proc/self/statm").ok().and_then(|t| t.split_whitespace().nth(1).and_then(|p| p.parse::<u64>().ok())).map(|p| p * 4096).unwrap_or(0)
}

fn rss_limit() -> u64 {
    std::env::var("VERIF_RSS_LIMIT_MB").ok().and_then(|v| v.parse::<u64>().ok()).unwrap_or(6144) << 20
}

pub fn rss_over_limit() -> bool {
    rss_bytes() > rss_limit()
}

pub fn replay_dir() -> String {
    std::env::var("VERIF_REPLAY_DIR").unwrap_or_else(|_| "/verif/replays".to_string())
}

pub fn write_replay(id: &str, verif_seed: u64, file: &J) -> String {
    let dir = format!("{}/{}", replay_dir(), id);
    let _ = std::fs::create_dir_all(&dir);
    // a case found on another build profile than the default one must be replayed on that build
    let tagged;
    let file = match std::env::var("VERIF_PROFILE") {
        Ok(p) if !p.is_empty() && file.get("profile").is_none() => {
            tagged = file.clone().set("profile", p.as_str());
            &tagged
        }
        _ => file,
    };
    let body = file.pretty();
    let h = fnv1a(FNV_INIT, body.as_bytes());
    let path = format!("{dir}/{verif_seed}-{h:016x}.json");
    std::fs::write(&path, body).expect("write replay file");
    path
}

/// Greedy minimisation: accept any candidate that still violates with the same class.
pub fn minimise(check: &dyn Check, case: &J, class: &str, budget: usize) -> (J, usize) {
    let mut cur = case.clone();
    let mut spent = 0usize;
    let mut progress = true;
    while progress && spent < budget {
        progress = false;
        for cand in check.shrink(&cur) {
            if spent >= budget {
                break;
            }
            spent += 1;
            if let Ok(Some((c, _))) = check.replay(&cand, None) {
                if check.same_class(&c, class) {
                    cur = cand;
                    progress = true;
                    break;
                }
            }
        }
    }
    (cur, spent)
}

// ---------------------------------------------------------------------------------------
// known findings
// ---------------------------------------------------------------------------------------

pub struct Known {
    pub property: String,
    pub id: String,
    pub class: String,
    pub what: String,
}

pub fn load_known(path: &str) -> Result<Vec<Known>, String> {
    let Ok(text) = std::fs::read_to_string(path) else { return Ok(Vec::new()) };
    let j = J::parse(&text)?;
    let mut out = Vec::new();
    for f in j.arr_of("findings")? {
        out.push(Known {
            property: f.str_of("property")?.to_string(),
            id: f.str_of("id")?.to_string(),
            class: f.str_of("class")?.to_string(),
            what: f.str_of("what")?.to_string(),
        });
    }
    Ok(out)
}

// ---------------------------------------------------------------------------------------
// evidence
// ---------------------------------------------------------------------------------------

fn map_json(m: &BTreeMap<String, u64>) -> J {
    J::Obj(m.iter().map(|(k, v)| (k.clone(), J::from(*v))).collect())
}

pub fn write_evidence(check: &dyn Check, tier: Tier, verif_seed: u64, out: &Outcome, n_violations: usize, known_hits: &BTreeMap<String, u64>, path: &str) {
    let st = &out.stats;
    let wall = out.wall.as_secs_f64();
    // at most 12 kinds, in key order: the choice must not depend on which worker saw what first
    let samples: Vec<J> = st.samples.iter().take(12).map(|(k, (e, j))| J::obj().set("kind", k.as_str()).set("episode", *e).set("case", j.clone())).collect();
    let coverage = J::obj()
        .set("evaluations", st.evaluations)
        .set("distinct_nontrivial", st.sigs.len())
        .set("rule", check.rule())
        .set("samples", J::Arr(samples))
        .set("exhaustive", false)
        .set("episodes", st.episodes)
        .set("runs_per_hour", if wall > 0.0 { (st.episodes as f64 / wall * 3600.0) as u64 } else { 0 })
        .set("logical_events", st.events)
        .set("simulated_time_note", "no clock exists in the code under test; simulated time is reported as the count of logical events (calls into rtcp-types)")
        .set("faults_fired", map_json(&st.faults))
        .set("probes", map_json(&st.probes))
        .set("counters", map_json(&st.counters))
        .set("ambient_sessions_note", "faults_fired.ambient-session-steps counts the steps a seeded second party took on the observed session's thread at the observed session's call boundaries (a quarter of the episodes; see ambient.rs): other datagrams parsed and read, a compound iterator and a view kept alive across the observed calls, the episode's own earlier deliveries parsed again, other builders measured / written / dropped, same-shape siblings of the observed configuration measured and written. It is a disturbance, not an oracle.")
        .set("inconclusive_panics", st.inconclusive_panics)
        .set("known_findings_hit", map_json(known_hits))
        .set("components", check.components())
        .set("workers", out.workers)
        .set("exhaustive_dimensions", J::Arr(check.exhaustive_dimensions().into_iter().map(J::from).collect()))
        .set("trace_digest", format!("{:016x}", st.trace_digest));
    let ev = J::obj()
        .set("property_id", check.id())
        .set("tier", tier.name())
        .set("seed", verif_seed)
        .set("level", check.level())
        .set("coverage", coverage)
        .set("assumptions", J::Arr(check.assumptions().into_iter().map(J::from).collect()))
        .set("wall_s", wall)
        .set("violations", n_violations);
    if let Some(dir) = std::path::Path::new(path).parent() {
        let _ = std::fs::create_dir_all(dir);
    }
    std::fs::write(path, ev.pretty()).expect("write evidence");
}
