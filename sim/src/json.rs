//! Minimal JSON value, writer and parser (no dependencies).
//! Numbers are integers (i128) or f64; object key order is preserved.

use std::fmt::Write;

#[derive(Clone, Debug, PartialEq)]
pub enum J {
    Null,
    Bool(bool),
    Int(i128),
    Float(f64),
    Str(String),
    Arr(Vec<J>),
    Obj(Vec<(String, J)>),
}

impl J {
    pub fn obj() -> J {
        J::Obj(Vec::new())
    }
    pub fn set(mut self, k: &str, v: impl Into<J>) -> J {
        if let J::Obj(ref mut o) = self {
            o.push((k.to_string(), v.into()));
        }
        self
    }
    pub fn put(&mut self, k: &str, v: impl Into<J>) {
        if let J::Obj(ref mut o) = self {
            o.push((k.to_string(), v.into()));
        }
    }
    pub fn get(&self, k: &str) -> Option<&J> {
        match self {
            J::Obj(o) => o.iter().find(|(kk, _)| kk == k).map(|(_, v)| v),
            _ => None,
        }
    }
    pub fn as_str(&self) -> Option<&str> {
        match self {
            J::Str(s) => Some(s),
            _ => None,
        }
    }
    pub fn as_i(&self) -> Option<i128> {
        match self {
            J::Int(i) => Some(*i),
            J::Float(f) => Some(*f as i128),
            _ => None,
        }
    }
    pub fn as_u64(&self) -> Option<u64> {
        self.as_i().map(|i| i as u64)
    }
    pub fn as_usize(&self) -> Option<usize> {
        self.as_i().map(|i| i as usize)
    }
    pub fn as_bool(&self) -> Option<bool> {
        match self {
            J::Bool(b) => Some(*b),
            _ => None,
        }
    }
    pub fn as_arr(&self) -> Option<&[J]> {
        match self {
            J::Arr(a) => Some(a),
            _ => None,
        }
    }
    // Typed getters that produce a readable error.
    pub fn str_of(&self, k: &str) -> Result<&str, String> {
        self.get(k).and_then(|v| v.as_str()).ok_or_else(|| format!("missing string field '{k}'"))
    }
    pub fn u64_of(&self, k: &str) -> Result<u64, String> {
        self.get(k).and_then(|v| v.as_u64()).ok_or_else(|| format!("missing integer field '{k}'"))
    }
    pub fn usize_of(&self, k: &str) -> Result<usize, String> {
        self.u64_of(k).map(|v| v as usize)
    }
    pub fn arr_of(&self, k: &str) -> Result<&[J], String> {
        self.get(k).and_then(|v| v.as_arr()).ok_or_else(|| format!("missing array field '{k}'"))
    }
    pub fn bool_of(&self, k: &str) -> Result<bool, String> {
        self.get(k).and_then(|v| v.as_bool()).ok_or_else(|| format!("missing bool field '{k}'"))
    }
    pub fn obj_of(&self, k: &str) -> Result<&J, String> {
        self.get(k).ok_or_else(|| format!("missing field '{k}'"))
    }

    pub fn to_string(&self) -> String {
        let mut s = String::new();
        self.write(&mut s, None, 0);
        s
    }
    pub fn pretty(&self) -> String {
        let mut s = String::new();
        self.write(&mut s, Some(1), 0);
        s.push('\n');
        s
    }

    fn write(&self, out: &mut String, indent: Option<usize>, depth: usize) {
        match self {
            J::Null => out.push_str("null"),
            J::Bool(b) => out.push_str(if *b { "true" } else { "false" }),
            J::Int(i) => {
                let _ = write!(out, "{i}");
            }
            J::Float(f) => {
                if f.is_finite() {
                    let _ = write!(out, "{f:.3}");
                } else {
                    out.push_str("0");
                }
            }
            J::Str(s) => write_str(out, s),
            J::Arr(a) => {
                // arrays of scalars stay on one line even when pretty-printing
                let scalar = a.iter().all(|v| !matches!(v, J::Arr(_) | J::Obj(_)));
                out.push('[');
                for (i, v) in a.iter().enumerate() {
                    if i > 0 {
                        out.push(',');
                    }
                    if let (Some(n), false) = (indent, scalar) {
                        newline(out, n, depth + 1);
                    }
                    v.write(out, indent, depth + 1);
                }
                if let (Some(n), false) = (indent, scalar) {
                    if !a.is_empty() {
                        newline(out, n, depth);
                    }
                }
                out.push(']');
            }
            J::Obj(o) => {
                out.push('{');
                for (i, (k, v)) in o.iter().enumerate() {
                    if i > 0 {
                        out.push(',');
                    }
                    if let Some(n) = indent {
                        newline(out, n, depth + 1);
                    }
                    write_str(out, k);
                    out.push(':');
                    if indent.is_some() {
                        out.push(' ');
                    }
                    v.write(out, indent, depth + 1);
                }
                if let Some(n) = indent {
                    if !o.is_empty() {
                        newline(out, n, depth);
                    }
                }
                out.push('}');
            }
        }
    }

    pub fn parse(s: &str) -> Result<J, String> {
        let mut p = P { b: s.as_bytes(), i: 0 };
        p.ws();
        let v = p.value()?;
        p.ws();
        if p.i != p.b.len() {
            return Err(format!("trailing data at byte {}", p.i));
        }
        Ok(v)
    }
}

fn newline(out: &mut String, n: usize, depth: usize) {
    out.push('\n');
    for _ in 0..n * depth {
        out.push(' ');
    }
}

fn write_str(out: &mut String, s: &str) {
    out.push('"');
    for c in s.chars() {
        match c {
            '"' => out.push_str("\\\""),
            '\\' => out.push_str("\\\\"),
            '\n' => out.push_str("\\n"),
            '\r' => out.push_str("\\r"),
            '\t' => out.push_str("\\t"),
            c if (c as u32) < 0x20 => {
                let _ = write!(out, "\\u{:04x}", c as u32);
            }
            c => out.push(c),
        }
    }
    out.push('"');
}

struct P<'a> {
    b: &'a [u8],
    i: usize,
}

impl<'a> P<'a> {
    fn ws(&mut self) {
        while self.i < self.b.len() && matches!(self.b[self.i], b' ' | b'\n' | b'\r' | b'\t') {
            self.i += 1;
        }
    }
    fn value(&mut self) -> Result<J, String> {
        if self.i >= self.b.len() {
            return Err("unexpected end".into());
        }
        match self.b[self.i] {
            b'n' => self.lit("null", J::Null),
            b't' => self.lit("true", J::Bool(true)),
            b'f' => self.lit("false", J::Bool(false)),
            b'"' => Ok(J::Str(self.string()?)),
            b'[' => {
                self.i += 1;
                let mut a = Vec::new();
                self.ws();
                if self.peek() == Some(b']') {
                    self.i += 1;
                    return Ok(J::Arr(a));
                }
                loop {
                    self.ws();
                    a.push(self.value()?);
                    self.ws();
                    match self.peek() {
                        Some(b',') => self.i += 1,
                        Some(b']') => {
                            self.i += 1;
                            return Ok(J::Arr(a));
                        }
                        _ => return Err(format!("expected , or ] at {}", self.i)),
                    }
                }
            }
            b'{' => {
                self.i += 1;
                let mut o = Vec::new();
                self.ws();
                if self.peek() == Some(b'}') {
                    self.i += 1;
                    return Ok(J::Obj(o));
                }
                loop {
                    self.ws();
                    let k = self.string()?;
                    self.ws();
                    if self.peek() != Some(b':') {
                        return Err(format!("expected : at {}", self.i));
                    }
                    self.i += 1;
                    self.ws();
                    let v = self.value()?;
                    o.push((k, v));
                    self.ws();
                    match self.peek() {
                        Some(b',') => self.i += 1,
                        Some(b'}') => {
                            self.i += 1;
                            return Ok(J::Obj(o));
                        }
                        _ => return Err(format!("expected , or }} at {}", self.i)),
                    }
                }
            }
            _ => self.number(),
        }
    }
    fn peek(&self) -> Option<u8> {
        self.b.get(self.i).copied()
    }
    fn lit(&mut self, s: &str, v: J) -> Result<J, String> {
        if self.b[self.i..].starts_with(s.as_bytes()) {
            self.i += s.len();
            Ok(v)
        } else {
            Err(format!("bad literal at {}", self.i))
        }
    }
    fn number(&mut self) -> Result<J, String> {
        let st = self.i;
        let mut float = false;
        while self.i < self.b.len() {
            match self.b[self.i] {
                b'0'..=b'9' | b'-' | b'+' => {}
                b'.' | b'e' | b'E' => float = true,
                _ => break,
            }
            self.i += 1;
        }
        let t = std::str::from_utf8(&self.b[st..self.i]).map_err(|e| e.to_string())?;
        if t.is_empty() {
            return Err(format!("unexpected character at {st}"));
        }
        if float {
            t.parse::<f64>().map(J::Float).map_err(|e| e.to_string())
        } else {
            t.parse::<i128>().map(J::Int).map_err(|e| e.to_string())
        }
    }
    fn string(&mut self) -> Result<String, String> {
        if self.peek() != Some(b'"') {
            return Err(format!("expected string at {}", self.i));
        }
        self.i += 1;
        let mut out = String::new();
        loop {
            let st = self.i;
            while self.i < self.b.len() && self.b[self.i] != b'"' && self.b[self.i] != b'\\' {
                self.i += 1;
            }
            out.push_str(std::str::from_utf8(&self.b[st..self.i]).map_err(|e| e.to_string())?);
            match self.peek() {
                None => return Err("unterminated string".into()),
                Some(b'"') => {
                    self.i += 1;
                    return Ok(out);
                }
                Some(_) => {
                    self.i += 1;
                    let c = self.peek().ok_or("bad escape")?;
                    self.i += 1;
                    match c {
                        b'n' => out.push('\n'),
                        b'r' => out.push('\r'),
                        b't' => out.push('\t'),
                        b'b' => out.push('\u{8}'),
                        b'f' => out.push('\u{c}'),
                        b'u' => {
                            let h = std::str::from_utf8(&self.b[self.i..self.i + 4]).map_err(|e| e.to_string())?;
                            let cp = u32::from_str_radix(h, 16).map_err(|e| e.to_string())?;
                            self.i += 4;
                            out.push(char::from_u32(cp).unwrap_or('\u{fffd}'));
                        }
                        c => out.push(c as char),
                    }
                }
            }
        }
    }
}

impl From<bool> for J {
    fn from(v: bool) -> J {
        J::Bool(v)
    }
}
impl From<&str> for J {
    fn from(v: &str) -> J {
        J::Str(v.to_string())
    }
}
impl From<String> for J {
    fn from(v: String) -> J {
        J::Str(v)
    }
}
impl From<f64> for J {
    fn from(v: f64) -> J {
        J::Float(v)
    }
}
macro_rules! from_int {
    ($($t:ty),*) => {$(impl From<$t> for J { fn from(v: $t) -> J { J::Int(v as i128) } })*};
}
from_int!(u8, u16, u32, u64, usize, i32, i64, i128);
impl<T: Into<J>> From<Vec<T>> for J {
    fn from(v: Vec<T>) -> J {
        J::Arr(v.into_iter().map(Into::into).collect())
    }
}

/// Hex rendering; a run of 32 or more equal bytes is written `(xx*N)` so that replay files
/// of very long deliveries stay readable.
pub fn hex(b: &[u8]) -> String {
    let mut s = String::with_capacity(b.len().min(4096) * 2);
    let mut i = 0;
    while i < b.len() {
        let mut j = i + 1;
        while j < b.len() && b[j] == b[i] {
            j += 1;
        }
        // a 4-byte pattern repeated 16 times or more (a chain of identical header-only packets)
        let mut k = i;
        if i + 8 <= b.len() {
            while k + 8 <= b.len() && b[k..k + 4] == b[k + 4..k + 8] {
                k += 4;
            }
        }
        let reps = (k - i) / 4 + 1;
        if j - i >= 32 {
            let _ = write!(s, "({:02x}*{})", b[i], j - i);
        } else if reps >= 16 && i + 4 <= b.len() {
            let _ = write!(s, "[{:02x}{:02x}{:02x}{:02x}*{}]", b[i], b[i + 1], b[i + 2], b[i + 3], reps);
            i += 4 * reps;
            continue;
        } else {
            for x in &b[i..j] {
                let _ = write!(s, "{x:02x}");
            }
        }
        i = j;
    }
    s
}

pub fn unhex(s: &str) -> Result<Vec<u8>, String> {
    let s = s.trim().as_bytes();
    let mut out = Vec::new();
    let mut i = 0;
    let byte = |s: &[u8], i: usize| -> Result<u8, String> {
        let t = std::str::from_utf8(s.get(i..i + 2).ok_or("odd hex length")?).map_err(|e| e.to_string())?;
        u8::from_str_radix(t, 16).map_err(|e| e.to_string())
    };
    while i < s.len() {
        if s[i] == b'[' {
            let pat = [byte(s, i + 1)?, byte(s, i + 3)?, byte(s, i + 5)?, byte(s, i + 7)?];
            if s.get(i + 9) != Some(&b'*') {
                return Err("bad pattern run in hex string".into());
            }
            let close = s[i..].iter().position(|c| *c == b']').ok_or("unterminated pattern run in hex string")? + i;
            let n: usize = std::str::from_utf8(&s[i + 10..close]).map_err(|e| e.to_string())?.parse().map_err(|_| "bad pattern run length".to_string())?;
            if n > 1 << 24 {
                return Err("pattern run too long in hex string".into());
            }
            for _ in 0..n {
                out.extend_from_slice(&pat);
            }
            i = close + 1;
            continue;
        }
        if s[i] == b'(' {
            let v = byte(s, i + 1)?;
            if s.get(i + 3) != Some(&b'*') {
                return Err("bad run in hex string".into());
            }
            let close = s[i..].iter().position(|c| *c == b')').ok_or("unterminated run in hex string")? + i;
            let n: usize = std::str::from_utf8(&s[i + 4..close]).map_err(|e| e.to_string())?.parse().map_err(|_| "bad run length in hex string".to_string())?;
            if n > 1 << 26 {
                return Err("run too long in hex string".into());
            }
            out.resize(out.len() + n, v);
            i = close + 1;
        } else {
            out.push(byte(s, i)?);
            i += 2;
        }
    }
    Ok(out)
}

#[cfg(test)]
mod tests {
    use super::{hex, unhex};
    #[test]
    fn hex_roundtrip_with_runs() {
        let mut cases: Vec<Vec<u8>> = vec![vec![], vec![1], vec![0; 31], vec![0; 32], vec![7; 100]];
        let mut chain = Vec::new();
        for _ in 0..1000 {
            chain.extend_from_slice(&[0x80, 0xcb, 0, 0]);
        }
        cases.push(chain.clone());
        let mut mixed = vec![1, 2, 3];
        mixed.extend_from_slice(&chain);
        mixed.extend_from_slice(&[9; 40]);
        mixed.extend_from_slice(&[0x80, 0xcb, 0, 0, 0x80, 0xcb, 0, 0, 5]);
        cases.push(mixed);
        let mut x = 12345u32;
        let rnd: Vec<u8> = (0..5000).map(|_| { x = x.wrapping_mul(1664525).wrapping_add(1013904223); (x >> 24) as u8 % 3 }).collect();
        cases.push(rnd);
        for c in cases {
            let h = hex(&c);
            assert_eq!(unhex(&h).unwrap(), c, "{h}");
        }
        assert!(hex(&chain).len() < 40);
    }
}
