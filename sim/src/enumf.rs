//! Exhaustive single-fault enumeration around one intact datagram (the way crash-point
//! enumeration re-runs one operation with the crash at every position), plus seeded
//! double faults.  Shared by C08, C18 (layer A) and C11.

use crate::faults::*;
use crate::prng::Rng;

/// A fault script: one or two faults applied in order.
pub type Script = Vec<Fault>;

fn trunc_lengths(len: usize) -> Vec<usize> {
    if len <= 640 {
        (0..len).collect()
    } else {
        let mut v: Vec<usize> = (0..=64).collect();
        v.extend((65..len - 64).filter(|k| k % 4 == 0 || k % 97 == 0));
        v.extend(len - 64..len);
        v
    }
}

/// Every single fault of the per-packet catalogue for a one-packet datagram.
pub fn single_faults_packet(base: &[u8]) -> Vec<Script> {
    let len = base.len();
    let mut out: Vec<Script> = Vec::new();
    for k in trunc_lengths(len) {
        out.push(vec![Fault::Truncate { len: k }]);
    }
    for n in [1usize, 2, 3, 4, 8] {
        out.push(vec![Fault::Extend { bytes: vec![0; n] }]);
        out.push(vec![Fault::Extend { bytes: vec![0xa5; n] }]);
    }
    out.push(vec![Fault::ExtendSelf { n: len }]);
    if len >= 4 {
        for v in 0..256u16 {
            out.push(vec![Fault::Hdr { tile: 0, field: HdrField::Byte0, val: v }]);
            out.push(vec![Fault::Hdr { tile: 0, field: HdrField::Pt, val: v }]);
        }
        let l = (len / 4).saturating_sub(1) as i64;
        for v in [0, l - 2, l - 1, l + 1, l + 2, 0xffff] {
            if v >= 0 {
                out.push(vec![Fault::Hdr { tile: 0, field: HdrField::Len, val: v.min(0xffff) as u16 }]);
            }
        }
        let body = len as i64;
        for v in [0, 1, 2, 3, 4, body - 13, body - 12, body - 11, body - 1, body, body + 1, 255] {
            if (0..=255).contains(&v) {
                for p in [Some(true), Some(false)] {
                    out.push(vec![Fault::Trailer { tile: 0, val: v as u8, p_bit: p }]);
                }
            }
        }
        for (off, what) in inner_len_sites(base) {
            let cur = base[off] as i64;
            for v in [0, cur - 1, cur + 1, cur + 2, cur + 4, 255] {
                if (0..=255).contains(&v) && v != cur {
                    out.push(vec![Fault::InnerLen { off, val: v as u8, what }]);
                }
            }
        }
    }
    out
}

/// Seeded double faults that make damage look consistent again.
pub fn double_faults_packet(r: &mut Rng, base: &[u8], n: usize) -> Vec<Script> {
    let len = base.len();
    let mut out = Vec::new();
    if len < 4 {
        return out;
    }
    for _ in 0..n {
        out.push(match r.below(6) {
            0 => vec![Fault::Truncate { len: r.below(len) }, Fault::Reframe],
            1 => vec![
                Fault::Hdr { tile: 0, field: HdrField::PBit, val: 1 },
                Fault::Trailer { tile: 0, val: *r.pick(&[0u8, 1, 3, 4, 8, 200, 255]), p_bit: None },
            ],
            2 => vec![Fault::Hdr { tile: 0, field: HdrField::Count, val: r.below(32) as u16 }, Fault::Truncate { len: r.below(len) }, Fault::Reframe],
            3 => {
                let n = 4 * r.range(1, 6);
                vec![Fault::Extend { bytes: r.bytes(n) }, Fault::Reframe]
            }
            4 => vec![Fault::Hdr { tile: 0, field: HdrField::Pt, val: r.range(200, 206) as u16 }, Fault::Truncate { len: r.below(len) }, Fault::Reframe],
            _ => vec![Fault::Hdr { tile: 0, field: HdrField::Byte0, val: r.below(256) as u16 }, Fault::Hdr { tile: 0, field: HdrField::Pt, val: r.range(198, 208) as u16 }],
        });
    }
    out
}

/// Single-fault catalogue for a compound datagram (C11): the whole length chain.
pub fn single_faults_compound(base: &[u8]) -> Vec<Script> {
    let len = base.len();
    let mut out: Vec<Script> = Vec::new();
    for k in trunc_lengths(len) {
        out.push(vec![Fault::Truncate { len: k }]);
    }
    for n in [1usize, 2, 3] {
        out.push(vec![Fault::Extend { bytes: vec![0x80; n] }]);
    }
    out.push(vec![Fault::Extend { bytes: vec![0; 4] }]);
    out.push(vec![Fault::Extend { bytes: vec![0x80, 201, 0, 1] }]);
    out.push(vec![Fault::ExtendSelf { n: len }]);
    let ts = tiles(base);
    for (j, (o, l)) in ts.iter().enumerate() {
        if *l < 4 {
            continue;
        }
        let words = (*l / 4) as i64 - 1;
        let rest = ((len - o) / 4) as i64 - 1;
        for v in [0, words - 2, words - 1, words + 1, words + 2, rest, rest + 1, rest - 1, 0xffff] {
            if (0..=0xffff).contains(&v) && v != words {
                out.push(vec![Fault::Hdr { tile: j, field: HdrField::Len, val: v as u16 }]);
            }
        }
        for v in [0u16, 1, 3] {
            out.push(vec![Fault::Hdr { tile: j, field: HdrField::Version, val: v }]);
        }
        for pt in [200u16, 201, 202, 203, 204, 205, 206, 207, 0] {
            if pt != base[o + 1] as u16 {
                out.push(vec![Fault::Hdr { tile: j, field: HdrField::Pt, val: pt }]);
            }
        }
        // body damage that makes only tile j unparseable: a padding bit with a zero count; and
        // padding counts that do not fit the tile (acceptance of the datagram must not depend on them)
        out.push(vec![Fault::Trailer { tile: j, val: 0, p_bit: Some(true) }]);
        for val in [1u8, 4, (*l).min(255) as u8, (*l + 1).min(255) as u8, 255] {
            out.push(vec![Fault::Trailer { tile: j, val, p_bit: Some(true) }]);
        }
        out.push(vec![Fault::Hdr { tile: j, field: HdrField::Count, val: 31 }]);
    }
    out
}

pub fn apply_script(base: &[u8], script: &Script) -> (Vec<u8>, bool) {
    let mut d = base.to_vec();
    let mut fired = false;
    for f in script {
        fired |= f.apply(&mut d);
    }
    (d, fired)
}
