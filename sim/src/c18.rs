//! C18 — parse errors tell the truth about the input.
//!
//! Layer A: invariant over every error returned for every enumerated faulted delivery.
//! Layer B: a stream reassembly loop driven by the library's own errors (short reads);
//! bounded liveness once the last fragment has arrived.

use crate::c08::{be16, enumerate_episode, TYPED};
use crate::engine::*;
use crate::enumf::*;
use crate::guard::guarded;
use crate::json::{hex, unhex, J};
use crate::prng::{fnv1a, Rng, FNV_INIT};
use crate::shrinkb::shrink_bytes;
use crate::spec::{gen_packet, strip_padding, GenCfg};
use crate::traffic::{gen_datagram, packet_bytes};
use rtcp_types::prelude::*;
use rtcp_types::*;

pub struct C18;

/// Generic truths that every error must satisfy.  `requested` is the parser's own packet
/// type when it has one.
fn generic_lie(b: &[u8], e: &RtcpParseError, requested: Option<u8>) -> Option<String> {
    match e {
        RtcpParseError::UnsupportedVersion(v) => {
            if b.is_empty() {
                return Some("UnsupportedVersion for an empty input".into());
            }
            if *v != b[0] >> 6 {
                return Some(format!("UnsupportedVersion({v}) but the input's version is {}", b[0] >> 6));
            }
            if *v == 2 {
                return Some("UnsupportedVersion(2)".into());
            }
            None
        }
        RtcpParseError::PacketTypeMismatch { actual, requested: req } => {
            if b.len() < 2 {
                return Some("PacketTypeMismatch for an input without a type byte".into());
            }
            if *actual != b[1] {
                return Some(format!("PacketTypeMismatch.actual={actual} but the input's type byte is {}", b[1]));
            }
            if let Some(r) = requested {
                if *req != r {
                    return Some(format!("PacketTypeMismatch.requested={req} but the parser's own type is {r}"));
                }
            }
            if actual == req {
                return Some(format!("PacketTypeMismatch with actual == requested == {actual}"));
            }
            None
        }
        RtcpParseError::Truncated { expected, actual } if expected <= actual => Some(format!("Truncated with expected {expected} <= actual {actual}")),
        RtcpParseError::TooLarge { expected, actual } if expected >= actual => Some(format!("TooLarge with expected {expected} >= actual {actual}")),
        _ => None,
    }
}

/// Exactness clauses for a packet-shaped parser with minimum `min`.
fn exact_lie<T>(b: &[u8], r: &Result<T, RtcpParseError>, pt: Option<u8>, min: usize) -> Option<String> {
    if b.len() < min {
        let want = RtcpParseError::Truncated { expected: min, actual: b.len() };
        return match r {
            Err(e) if *e == want => None,
            Err(e) => Some(format!("input of {} bytes is below the minimum {min}; expected {want:?}, got {e:?}", b.len())),
            Ok(_) => Some(format!("input of {} bytes is below the minimum {min} but was accepted", b.len())),
        };
    }
    if b.len() < 4 {
        return None;
    }
    let h = 4 * (be16(b, 2) + 1);
    if b[0] >> 6 == 2 && pt.map(|p| b[1] == p).unwrap_or(true) && b.len() != h {
        let want = if b.len() < h { RtcpParseError::Truncated { expected: h, actual: b.len() } } else { RtcpParseError::TooLarge { expected: h, actual: b.len() } };
        return match r {
            Err(e) if *e == want => None,
            Err(e) => Some(format!("header length {h} vs real length {}; expected {want:?}, got {e:?}", b.len())),
            Ok(_) => Some(format!("header length {h} differs from real length {} but the input was accepted", b.len())),
        };
    }
    None
}

/// What the exactness clauses demand of a packet-shaped parser on `b`, if they apply.
fn exact_demand(b: &[u8], pt: Option<u8>, min: usize) -> Option<RtcpParseError> {
    if b.len() < min {
        return Some(RtcpParseError::Truncated { expected: min, actual: b.len() });
    }
    if b.len() < 4 {
        return None;
    }
    let h = 4 * (be16(b, 2) + 1);
    if b[0] >> 6 == 2 && pt.map(|p| b[1] == p).unwrap_or(true) && b.len() != h {
        return Some(if b.len() < h { RtcpParseError::Truncated { expected: h, actual: b.len() } } else { RtcpParseError::TooLarge { expected: h, actual: b.len() } });
    }
    None
}

/// The exactness clauses as they apply to compound parsing: below 4 bytes the minimum; and a
/// datagram that is shorter than what its FIRST header (version 2) announces is a version-2
/// input whose length differs from 4*(length field+1) — there is no packet type to match and a
/// longer input is not an error for a compound, so only the truncated half applies.
fn compound_demand(b: &[u8]) -> Option<RtcpParseError> {
    if b.len() < 4 {
        return Some(RtcpParseError::Truncated { expected: 4, actual: b.len() });
    }
    let h = 4 * (be16(b, 2) + 1);
    if b[0] >> 6 == 2 && b.len() < h {
        return Some(RtcpParseError::Truncated { expected: h, actual: b.len() });
    }
    None
}

fn compound_exact_lie(b: &[u8], r: &Result<(), RtcpParseError>) -> Option<String> {
    let want = compound_demand(b)?;
    match r {
        Err(e) if *e == want => None,
        Err(e) => Some(format!("compound of {} bytes: must report {want:?}, got {e:?}", b.len())),
        Ok(()) => Some(format!("compound of {} bytes: must report {want:?} but was accepted", b.len())),
    }
}

/// Errors yielded while an accepted compound is iterated, judged against their own tile.
fn compound_items_lie(b: &[u8]) -> (Option<(String, String)>, Vec<u8>, bool) {
    let mut codes = Vec::new();
    if b.len() < 8 {
        return (None, codes, false);
    }
    let Some(tiles) = crate::c11::reference_tiling(b) else { return (None, codes, false) };
    if tiles.len() < 2 {
        return (None, codes, false);
    }
    let errs = match guarded(|| {
        let mut out: Vec<(usize, RtcpParseError)> = Vec::new();
        if let Ok(c) = Compound::parse(b) {
            for (k, item) in c.take(tiles.len() + 1).enumerate() {
                if let Err(e) = item {
                    out.push((k, e));
                }
            }
        }
        out
    }) {
        Ok(e) => e,
        Err(_) => return (None, codes, true),
    };
    let mut found = None;
    for (k, e) in errs {
        let Some(&(o, l)) = tiles.get(k) else { continue };
        let tile = &b[o..o + l];
        codes.push(1 + crate::receiver::err_code(&e) as u8);
        let (pt, min) = if (200..=206).contains(&tile[1]) { (Some(tile[1]), TYPED[(tile[1] - 200) as usize].2) } else { (None, 4) };
        let r: Result<(), RtcpParseError> = Err(e);
        let lie = match &r {
            Err(e) => generic_lie(tile, e, pt).map(|d| ("Lie", d)),
            Ok(()) => None,
        }
        .or_else(|| exact_lie(tile, &r, pt, min).map(|d| ("Inexact", d)));
        if let (None, Some((kind, d))) = (&found, lie) {
            found = Some((format!("{kind}:Compound::next"), format!("item {k} of an accepted compound, tile of {} bytes at offset {o}: {d}", tile.len())));
        }
    }
    (found, codes, false)
}

pub struct VerdictA {
    pub codes: Vec<u8>,
    pub violation: Option<(String, String)>,
    pub panics: u32,
}

fn code<T>(r: &Result<T, RtcpParseError>) -> u8 {
    match r {
        Ok(_) => 0,
        Err(e) => 1 + crate::receiver::err_code(e) as u8,
    }
}

pub fn judge_a(b: &[u8]) -> VerdictA {
    crate::ambient::note_delivery(b);
    let mut v = VerdictA { codes: Vec::with_capacity(32), violation: None, panics: 0 };
    macro_rules! packetish {
        ($name:expr, $parse:expr, $pt:expr, $min:expr) => {{
            match guarded(|| {
                let r = $parse;
                let c = code(&r);
                let lie = match &r {
                    Err(e) => generic_lie(b, e, $pt).map(|d| ("Lie", d)),
                    Ok(_) => None,
                }
                .or_else(|| exact_lie(b, &r, $pt, $min).map(|d| ("Inexact", d)));
                (c, lie)
            }) {
                Ok((c, lie)) => {
                    v.codes.push(c);
                    if let Some((k, d)) = lie {
                        v.violation.get_or_insert((format!("{k}:{}", $name), format!("{}::parse on {} bytes: {d}", $name, b.len())));
                    }
                }
                Err(p) => {
                    v.codes.push(255);
                    v.panics += 1;
                    // where the statement says what must be reported, an unwind reports nothing
                    if let Some(want) = exact_demand(b, $pt, $min) {
                        v.violation.get_or_insert((format!("Inexact:{}", $name), format!("{}::parse on {} bytes: must report {want:?} but unwound ({} at {})", $name, b.len(), p.msg, p.short_loc())));
                    }
                }
            }
        }};
    }
    packetish!("Sr", SenderReport::parse(b), Some(200), 28);
    packetish!("Rr", ReceiverReport::parse(b), Some(201), 8);
    packetish!("Sdes", Sdes::parse(b), Some(202), 4);
    packetish!("Bye", Bye::parse(b), Some(203), 4);
    packetish!("App", App::parse(b), Some(204), 12);
    packetish!("Tfb", TransportFeedback::parse(b), Some(205), 12);
    packetish!("Pfb", PayloadFeedback::parse(b), Some(206), 12);
    packetish!("Unknown", Unknown::parse(b), None, 4);
    // typed parsers defined outside the crate on the public framing helper (as tests/custom_packet.rs does)
    packetish!("Custom8", crate::c08::Custom8::parse(b), Some(255), 8);
    packetish!("Custom14", crate::c08::Custom14::parse(b), Some(251), 14);
    packetish!("Custom6", crate::c08::Custom6::parse(b), Some(250), 6);
    // Packet: below 4 bytes its own minimum applies; from 4 bytes on the guarantees of the
    // type it dispatches to
    if b.len() < 4 {
        packetish!("Packet", Packet::parse(b), None, 4);
    } else if (200..=206).contains(&b[1]) {
        let (_, pt, min) = TYPED[(b[1] - 200) as usize];
        packetish!("Packet", Packet::parse(b), Some(pt), min);
    } else {
        packetish!("Packet", Packet::parse(b), None, 4);
    }

    // conversions reject with the same error type: from an accepted generic packet or unknown
    // packet, by reference (`try_as`) and by value (`TryFrom`), into each typed view
    macro_rules! conv {
        ($ty:ty, $name:expr, $pt:expr, $min:expr) => {{
            let results: [(&str, Result<Option<Result<(), RtcpParseError>>, crate::guard::PanicInfo>); 4] = [
                ("Packet::try_as", guarded(|| Packet::parse(b).ok().map(|p| p.try_as::<$ty>().map(|_| ())))),
                ("TryFrom<Packet>", guarded(|| Packet::parse(b).ok().map(|p| <$ty>::try_from(p).map(|_| ())))),
                ("Unknown::try_as", guarded(|| Unknown::parse(b).ok().map(|u| u.try_as::<$ty>().map(|_| ())))),
                ("TryFrom<Unknown>", guarded(|| Unknown::parse(b).ok().map(|u| <$ty>::try_from(u).map(|_| ())))),
            ];
            for (how, r) in results {
                match r {
                    Ok(None) => {}
                    Ok(Some(r)) => {
                        v.codes.push(code(&r));
                        if let Err(e) = &r {
                            if let Some(d) = generic_lie(b, e, Some($pt)) {
                                v.violation.get_or_insert((format!("Lie:{how}::<{}>", $name), format!("{how}::<{}> on an accepted packet of {} bytes: {d}", $name, b.len())));
                            }
                        }
                        // a conversion out of an unknown packet is the typed parser run on its bytes:
                        // the exactness clauses apply to it (a known variant of another type is turned
                        // down by its type alone, whatever its size)
                        if how.contains("Unknown") || !(200..=206).contains(&b[1]) {
                            if let Some(d) = exact_lie(b, &r, Some($pt), $min) {
                                v.violation.get_or_insert((format!("Inexact:{how}::<{}>", $name), format!("{how}::<{}> on an accepted packet of {} bytes: {d}", $name, b.len())));
                            }
                        }
                    }
                    Err(_) => {
                        v.codes.push(255);
                        v.panics += 1
                    }
                }
            }
        }};
    }
    if b.len() >= 4 && b[0] >> 6 == 2 && b.len() == 4 * (be16(b, 2) + 1) {
        conv!(SenderReport, "Sr", 200, 28);
        conv!(ReceiverReport, "Rr", 201, 8);
        conv!(Sdes, "Sdes", 202, 4);
        conv!(Bye, "Bye", 203, 4);
        conv!(App, "App", 204, 12);
        conv!(TransportFeedback, "Tfb", 205, 12);
        conv!(PayloadFeedback, "Pfb", 206, 12);
    }

    // the errors an accepted compound hands out while it is iterated are parser errors about
    // one tile: they must tell the truth about that tile
    {
        let (lie, codes, panicked) = compound_items_lie(b);
        v.codes.extend(codes);
        if panicked {
            v.codes.push(255);
            v.panics += 1;
        }
        if let Some(l) = lie {
            v.violation.get_or_insert(l);
        }
    }

    // non-packet parsers: generic truths, and the minimum-size clause where a minimum exists
    macro_rules! plain {
        ($name:expr, $parse:expr, $min:expr) => {{
            match guarded(|| {
                let r = $parse;
                let c = code(&r);
                let lie = match &r {
                    Err(e) => generic_lie(b, e, None).map(|d| ("Lie", d)),
                    Ok(_) => None,
                };
                let lie = lie.or_else(|| {
                    let min: Option<usize> = $min;
                    match (min, &r) {
                        (Some(m), Err(e)) if b.len() < m && *e != (RtcpParseError::Truncated { expected: m, actual: b.len() }) => {
                            Some(("Inexact", format!("input of {} bytes is below the minimum {m}; got {e:?}", b.len())))
                        }
                        (Some(m), Ok(_)) if b.len() < m => Some(("Inexact", format!("input of {} bytes is below the minimum {m} but was accepted", b.len()))),
                        _ => None,
                    }
                });
                (c, lie)
            }) {
                Ok((c, lie)) => {
                    v.codes.push(c);
                    if let Some((k, d)) = lie {
                        v.violation.get_or_insert((format!("{k}:{}", $name), format!("{} on {} bytes: {d}", $name, b.len())));
                    }
                }
                Err(p) => {
                    v.codes.push(255);
                    v.panics += 1;
                    let min: Option<usize> = $min;
                    if let Some(m) = min {
                        if b.len() < m {
                            v.violation.get_or_insert((format!("Inexact:{}", $name), format!("{} on {} bytes: must report Truncated {{ expected: {m}, actual: {} }} but unwound ({} at {})", $name, b.len(), b.len(), p.msg, p.short_loc())));
                        }
                    }
                }
            }
        }};
    }
    plain!("ReportBlock", ReportBlock::parse(b), Some(24));
    plain!("Compound", Compound::parse(b), Some(4));
    if v.violation.is_none() {
        if let Ok(r) = guarded(|| Compound::parse(b).map(|_| ())) {
            if let Some(d) = compound_exact_lie(b, &r) {
                v.violation = Some(("Inexact:Compound".into(), d));
            }
        }
    }
    plain!("NackFci", <Nack as FciParser>::parse(b), None);
    // RFC 5104 4.3.1.1 / RFC 4585 6.3.2.2, 6.3.3.2: a FIR FCI holds at least one 8-byte entry, an
    // SLI FCI at least one 4-byte entry, an RPSI FCI at least PB, PT and padding to 32 bits.
    // (A NACK FCI may be empty for this parser and a PLI FCI is empty: no minimum clause there.)
    plain!("FirFci", <Fir as FciParser>::parse(b), Some(8));
    plain!("SliFci", <Sli as FciParser>::parse(b), Some(4));
    plain!("RpsiFci", <Rpsi as FciParser>::parse(b), Some(4));
    plain!("PliFci", <Pli as FciParser>::parse(b), None);
    // FCI parsers on the body of a feedback-shaped delivery, and parse_fci for all ten pairs
    if b.len() >= 12 {
        let body = &b[12..];
        let _ = body;
        macro_rules! via {
            ($fb:ty, $lbl:expr) => {{
                if let Ok(Ok(p)) = guarded(|| <$fb>::parse(b)) {
                    macro_rules! one {
                        ($f:ty, $n:expr) => {{
                            match guarded(|| {
                                let r = p.parse_fci::<$f>();
                                let c = code(&r);
                                // errors of parse_fci describe the FCI bytes it handed on
                                let lie = match &r {
                                    Err(e) => generic_lie(&b[12..], e, None),
                                    Ok(_) => None,
                                };
                                (c, lie)
                            }) {
                                Ok((c, lie)) => {
                                    v.codes.push(c);
                                    if let Some(d) = lie {
                                        v.violation.get_or_insert((format!("Lie:{}::parse_fci::<{}>", $lbl, $n), d));
                                    }
                                }
                                Err(_) => {
                                    v.codes.push(255);
                                    v.panics += 1
                                }
                            }
                        }};
                    }
                    one!(Nack, "Nack");
                    one!(Fir, "Fir");
                    one!(Sli, "Sli");
                    one!(Rpsi, "Rpsi");
                    one!(Pli, "Pli");
                }
            }};
        }
        via!(TransportFeedback, "Tfb");
        via!(PayloadFeedback, "Pfb");
    }
    v
}

// ---------------------------------------------------------------------------------------
// Layer B: stream reassembly
// ---------------------------------------------------------------------------------------

/// The obvious I/O loop of a caller that trusts `Truncated.expected`.
/// `packets` were appended to the stream; `cuts` are the fragment sizes delivered.
pub fn judge_b(packets: &[Vec<u8>], cuts: &[usize], log: &mut Option<&mut Vec<String>>) -> Result<Option<(String, String)>, u32> {
    let stream: Vec<u8> = packets.iter().flatten().copied().collect();
    let total = stream.len();
    let mut arrived = 0usize;
    let mut consumed = 0usize;
    let mut need = 4usize;
    let mut emitted = 0usize;
    let mut calls_this_packet = 0u32;
    let mut cut_i = 0usize;
    let mut calls_after_last = 0u32;
    let mut panics = 0u32;
    loop {
        // consume as much as possible from what has arrived
        while arrived - consumed >= need {
            if emitted >= packets.len() {
                break;
            }
            calls_this_packet += 1;
            if arrived == total {
                calls_after_last += 1;
            }
            let window = &stream[consumed..consumed + need];
            let r = match guarded(|| Packet::parse(window).map(|_| ())) {
                Ok(r) => r,
                Err(_) => {
                    panics += 1;
                    return Err(panics);
                }
            };
            if let Some(l) = log.as_mut() {
                l.push(format!("Packet::parse(stream[{}..{}]) -> {:?}", consumed, consumed + need, r));
            }
            match r {
                Ok(()) => {
                    if window != packets[emitted].as_slice() {
                        return Ok(Some((
                            "Stream:emitted_wrong_bytes".into(),
                            format!("packet {emitted}: the reader emitted {} bytes, the sender wrote {}", window.len(), packets[emitted].len()),
                        )));
                    }
                    if calls_this_packet > 3 {
                        return Ok(Some(("Stream:too_many_parse_calls".into(), format!("packet {emitted} needed {calls_this_packet} parse calls"))));
                    }
                    consumed += need;
                    emitted += 1;
                    need = 4;
                    calls_this_packet = 0;
                }
                Err(RtcpParseError::Truncated { expected, .. }) if expected > need => {
                    if consumed + expected > total {
                        return Ok(Some((
                            "Stream:waits_for_bytes_that_never_come".into(),
                            format!("packet {emitted}: Truncated.expected={expected} asks for more than the {} bytes that remain", total - consumed),
                        )));
                    }
                    if expected > packets[emitted].len() {
                        return Ok(Some((
                            "Stream:expected_exceeds_packet".into(),
                            format!("packet {emitted} is {} bytes but Truncated.expected={expected}", packets[emitted].len()),
                        )));
                    }
                    need = expected;
                    if calls_this_packet > 3 {
                        return Ok(Some(("Stream:too_many_parse_calls".into(), format!("packet {emitted} needed more than 3 parse calls"))));
                    }
                }
                Err(e) => {
                    return Ok(Some((
                        "Stream:protocol_error_on_intact_stream".into(),
                        format!("packet {emitted}: parsing the first {need} bytes of an intact packet gave {e:?}, which does not tell the reader how much to wait for"),
                    )));
                }
            }
        }
        if emitted == packets.len() {
            break;
        }
        if arrived == total {
            return Ok(Some(("Stream:stalled".into(), format!("all {total} bytes arrived but only {emitted} of {} packets were emitted (reader waits for {need} bytes)", packets.len()))));
        }
        // next fragment
        let c = cuts.get(cut_i).copied().unwrap_or(total).max(1);
        cut_i += 1;
        arrived = (arrived + c).min(total);
    }
    if calls_after_last > 3 * packets.len() as u32 {
        return Ok(Some(("Stream:no_progress_bound".into(), format!("{calls_after_last} parse calls after the last fragment for {} packets", packets.len()))));
    }
    Ok(None)
}

fn case_b(packets: &[Vec<u8>], cuts: &[usize]) -> J {
    J::obj().set("layer", "B").set("packets", J::Arr(packets.iter().map(|p| J::from(hex(p))).collect())).set("cuts", cuts.to_vec())
}

impl Check for C18 {
    fn id(&self) -> &'static str {
        "C18"
    }
    fn level(&self) -> &'static str {
        "fault_enumeration"
    }
    fn episodes(&self, tier: Tier) -> u64 {
        match tier {
            Tier::Quick => 200_000,
            Tier::Thorough => 10_000_000,
        }
    }

    fn raw_case(&self, bytes: &[u8], _tape: &[u32]) -> J {
        J::obj().set("layer", "A").set("deliver", hex(bytes))
    }

    fn run_episode(&self, seed: u64, idx: u64, ctx: &mut Ctx<'_>, out: &mut Vec<Violation>) {
        // ---- layer A: per-packet enumeration
        let mut pre = Vec::new();
        enumerate_episode(
            seed,
            idx,
            ctx,
            |ctx, base, script, d, fired| {
                let v = judge_a(d);
                ctx.stats.events += v.codes.len() as u64;
                ctx.stats.inconclusive_panics += v.panics as u64;
                let errs = v.codes.iter().filter(|c| **c != 0 && **c != 255).count() as u64;
                ctx.stats.count("layerA_errors_checked", errs);
                let ch = fnv1a(FNV_INIT, &v.codes);
                ctx.stats.trace_digest ^= fnv1a(ch ^ seed, &(d.len() as u64).to_le_bytes());
                if fired && d.len() >= 4 {
                    let k = script.iter().fold(0u64, |a, f| a * 31 + f.kind() as u64 + 1);
                    ctx.stats.sig(&[ch, k, (d.len().min(2048) as u64 + 3) / 4]);
                }
                let kind = if !fired { "A-intact" } else { "A-faulted" };
                if ctx.stats.wants_sample(kind, idx) && d.len() <= 120 {
                    ctx.stats.sample(kind, idx, || {
                        J::obj().set("layer", "A").set("source", base.source).set("faults", J::Arr(script.iter().map(|f| f.to_json()).collect())).set("deliver", hex(d)).set("result_codes", v.codes.clone())
                    });
                }
                v.violation
            },
            &mut pre,
        );
        for mut v in pre {
            if let J::Obj(ref mut o) = v.case {
                o.insert(0, ("layer".into(), J::from("A")));
            }
            out.push(v);
        }

        // ---- layer A on compounds: Compound::parse errors over the tiling fault space
        let mut wl = Rng::derive(seed, "workload-compound");
        let hash_key = Rng::derive(seed, "hash").next_u64();
        let gcfg = GenCfg::valid_only(&mut wl);
        let cb = gen_datagram(&mut wl, &gcfg, 5, hash_key);
        let mut compound_delivery = |ctx: &mut Ctx<'_>, out: &mut Vec<Violation>, d: &[u8], prov: &dyn Fn() -> J| {
            ctx.stats.evaluations += 1;
            ctx.stats.events += 1;
            ctx.publish_raw(idx, d, &[]);
            let r = guarded(|| Compound::parse(d).map(|_| ()));
            let Ok(r) = r else {
                ctx.stats.inconclusive_panics += 1;
                return;
            };
            ctx.stats.trace_digest ^= fnv1a(seed ^ 0xc0, &[code(&r)]);
            if r.is_ok() {
                let (lie, codes, panicked) = compound_items_lie(d);
                ctx.stats.count("layerA_errors_checked", codes.len() as u64);
                ctx.stats.inconclusive_panics += panicked as u64;
                if let Some((class, detail)) = lie {
                    out.push(Violation { class, detail, episode: idx, case: J::obj().set("layer", "A").set("deliver", hex(d)), provenance: prov() });
                }
            }
            if let Err(e) = &r {
                ctx.stats.count("layerA_errors_checked", 1);
                let lie = generic_lie(d, e, None).map(|x| ("Lie:Compound", x)).or_else(|| compound_exact_lie(d, &r).map(|x| ("Inexact:Compound", x)));
                if let Some((class, detail)) = lie {
                    out.push(Violation { class: class.into(), detail, episode: idx, case: J::obj().set("layer", "A").set("deliver", hex(d)), provenance: prov() });
                }
            }
        };
        for script in single_faults_compound(&cb.bytes) {
            let (d, fired) = apply_script(&cb.bytes, &script);
            if !fired {
                continue;
            }
            for f in &script {
                ctx.stats.fault(f.kind_name(), 1);
            }
            compound_delivery(ctx, out, &d, &|| cb.provenance().set("faults", J::Arr(script.iter().map(|f| f.to_json()).collect())));
        }
        for v in crate::lensweep::values_for(idx) {
            for fr in crate::lensweep::compound_frames(v) {
                crate::lensweep::with_frame(&fr, |d| {
                    ctx.stats.fault("hdr-length-sweep", 1);
                    compound_delivery(ctx, out, d, &|| J::obj().set("source", fr.describe()));
                });
            }
        }

        // ---- layer B: streams
        let mut sr = Rng::derive(seed, "stream");
        for s in 0..4u64 {
            let kmax = if sr.chance(1, 4) { 16 } else { 5 };
            let k = 1 + sr.below(kmax);
            let mut packets = Vec::new();
            let mut skipped = 0u64;
            for _ in 0..k {
                let mut spec = gen_packet(&mut sr, &gcfg);
                if sr.chance(1, 2) {
                    strip_padding(&mut spec);
                }
                let (b, _) = packet_bytes(&mut sr, &spec, hash_key);
                // precondition: only packets the parser accepts when intact go on the stream
                ctx.publish_raw(idx, &b, &[]);
                match guarded(|| Packet::parse(&b).is_ok()) {
                    Ok(true) => packets.push(b),
                    _ => skipped += 1,
                }
            }
            ctx.stats.count("layerB_skipped_rejected_intact", skipped);
            if packets.is_empty() {
                continue;
            }
            let total: usize = packets.iter().map(|p| p.len()).sum();
            let mut cuts = Vec::new();
            let style = sr.below(5);
            let mut sum = 0;
            while sum < total && cuts.len() < 64 {
                let c = match style {
                    0 => 1,
                    1 => sr.range(1, 4),
                    2 => sr.range(1, 40),
                    3 => total,
                    _ => *sr.pick(&[1usize, 2, 3, 4, 5, 7, 8, 12, 16, 28, 64]),
                };
                cuts.push(c);
                sum += c;
            }
            ctx.stats.fault("fragment", cuts.len() as u64);
            ctx.stats.evaluations += 1;
            ctx.stats.count("layerB_streams", 1);
            ctx.stats.count("layerB_packets", packets.len() as u64);
            match judge_b(&packets, &cuts, &mut None) {
                Ok(verdict) => {
                    ctx.stats.events += 2 * packets.len() as u64;
                    ctx.stats.sig(&[0xb, packets.len() as u64, style as u64, (total as u64 + 7) / 8]);
                    ctx.stats.trace_digest ^= fnv1a(seed ^ s, &(total as u64).to_le_bytes());
                    if ctx.stats.wants_sample("B-stream", idx) && total <= 120 {
                        ctx.stats.sample("B-stream", idx, || case_b(&packets, &cuts));
                    }
                    if let Some((class, detail)) = verdict {
                        out.push(Violation { class, detail, episode: idx, case: case_b(&packets, &cuts), provenance: J::obj().set("stream", s) });
                    }
                }
                Err(p) => ctx.stats.inconclusive_panics += p as u64,
            }
        }
    }

    fn replay(&self, case: &J, mut log: Option<&mut Vec<String>>) -> Result<Option<(String, String)>, String> {
        match case.str_of("layer")? {
            "A" => {
                let d = unhex(case.str_of("deliver")?)?;
                let v = judge_a(&d);
                if let Some(l) = log.as_mut() {
                    l.push(format!("deliver {} bytes; result codes {:?}", d.len(), v.codes));
                }
                if v.violation.is_some() {
                    return Ok(v.violation);
                }
                // compound-only clause
                if let Ok(Err(e)) = guarded(|| Compound::parse(&d).map(|_| ())) {
                    if let Some(detail) = generic_lie(&d, &e, None) {
                        return Ok(Some(("Lie:Compound".into(), detail)));
                    }
                }
                Ok(None)
            }
            "B" => {
                let packets = case.arr_of("packets")?.iter().map(|p| p.as_str().ok_or("hex".to_string()).and_then(unhex)).collect::<Result<Vec<_>, _>>()?;
                let cuts = case.arr_of("cuts")?.iter().map(|c| c.as_usize().ok_or("int".to_string())).collect::<Result<Vec<_>, _>>()?;
                // the replay keeps the precondition: every packet is accepted when intact
                for p in &packets {
                    if !matches!(guarded(|| Packet::parse(p).is_ok()), Ok(true)) {
                        return Ok(None);
                    }
                }
                match judge_b(&packets, &cuts, &mut log) {
                    Ok(v) => Ok(v),
                    Err(_) => Ok(None),
                }
            }
            o => Err(format!("unknown layer {o}")),
        }
    }

    fn shrink(&self, case: &J) -> Vec<J> {
        match case.str_of("layer") {
            Ok("A") => {
                let Ok(d) = case.str_of("deliver").and_then(|s| unhex(s)) else { return vec![] };
                shrink_bytes(&d).into_iter().map(|b| J::obj().set("layer", "A").set("deliver", hex(&b))).collect()
            }
            Ok("B") => {
                let Ok(pk) = case.arr_of("packets") else { return vec![] };
                let packets: Vec<Vec<u8>> = pk.iter().filter_map(|p| p.as_str().and_then(|s| unhex(s).ok())).collect();
                let cuts: Vec<usize> = case.arr_of("cuts").map(|c| c.iter().filter_map(|x| x.as_usize()).collect()).unwrap_or_default();
                let mut out = Vec::new();
                for i in 0..packets.len() {
                    out.push(case_b(&[packets[i].clone()], &cuts));
                    let mut p = packets.clone();
                    p.remove(i);
                    if !p.is_empty() {
                        out.push(case_b(&p, &cuts));
                    }
                }
                out.push(case_b(&packets, &[]));
                out.push(case_b(&packets, &[1]));
                for i in 0..cuts.len().min(32) {
                    let mut c = cuts.clone();
                    c.remove(i);
                    out.push(case_b(&packets, &c));
                }
                out
            }
            _ => vec![],
        }
    }

    fn rule(&self) -> String {
        "Layer A: the C08 enumeration (exhaustive single faults + 200 seeded double faults around one intact packet per episode) delivered to 7 typed parsers, Unknown, Packet, ReportBlock, Compound, the 5 FCI parsers directly, parse_fci for all 10 pairs, and the 28 conversions (try_as / TryFrom, from Packet / Unknown, into each typed view) of whatever the generic parsers accept; plus the C11 tiling fault space around one compound per episode for Compound::parse; plus, in the first 4096 episodes of a run, the exhaustive sweep of the 16-bit length field (all 65536 values; single packets of every type and compounds; real size = announced -4/-1/0/+1/+4). Every returned error is checked against facts computed from the bytes. Layer B: 4 streams per episode of 1-16 intact packets delivered in seeded fragments (short reads) to a reassembly loop that trusts Truncated.expected. evaluations = deliveries + streams. Non-trivial = a fault fired and the delivery is at least 4 bytes, or a fragmented stream; distinct = distinct (vector of per-parser result codes, fault-kind sequence, length in words) resp. (packets, fragmentation style, length class).".into()
    }
    fn assumptions(&self) -> Vec<String> {
        vec![
            "exactness clauses are applied only under their stated preconditions (below the RFC minimum; version 2, right type, length != header length); when several defects coexist only the truth of the returned error is checked".into(),
            "for Packet::parse the minimum and type are those of the variant the packet-type byte names; for the FCI parsers the generic clauses apply, and the minimum-size clause with the RFC minima of FIR (8), SLI (4) and RPSI (4)".into(),
            "layer B puts only packets that Packet::parse accepts when intact on the stream, fragmentation is the only fault there".into(),
            "RFC minimum sizes hard-coded in the oracle".into(),
            "where an exactness clause fixes what must be reported, an unwind of the parser is a violation of that clause; any other unwind is C01's finding (inconclusive here)".into(),
        ]
    }
    fn components(&self) -> J {
        J::obj()
            .set("real", J::Arr(vec!["rtcp-types parsers and their error values".into(), "rtcp-types builders (sender, traffic)".into()]))
            .set("stub", J::Arr(vec!["channel: fault enumerator (A), stream fragmenter (B)".into(), "reassembly loop of a caller (B)".into(), "foreign peer RFC encoder (traffic)".into()]))
    }
    fn exhaustive_dimensions(&self) -> Vec<String> {
        vec!["all truncation lengths per base (short reads at every position)".into(), "all 256 values of header byte 0 and of the packet-type byte per base".into(), "all 65536 values of the length field, once per run".into()]
    }
}
