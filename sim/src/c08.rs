//! C08 — a packet is accepted only if it is exactly and consistently framed.
//!
//! The receiver's frame-integrity guarantee at the transport boundary.  For each intact
//! single-packet datagram the single-fault space is enumerated exhaustively; the oracle is
//! an independent header reader with hard-coded RFC minimum sizes.  Only the implication
//! accept => framed is checked, exactly as the property states.

use crate::engine::*;
use crate::enumf::*;
use crate::faults::{Fault, HdrField};
use crate::guard::guarded;
use crate::json::{hex, unhex, J};
use crate::prng::{fnv1a, Rng, FNV_INIT};
use crate::shrinkb::shrink_bytes;
use crate::spec::GenCfg;
use crate::traffic::gen_single;
use rtcp_types::prelude::*;
use rtcp_types::*;

pub struct C08;

/// (name, packet type, RFC minimum size) — hard-coded, not read from the crate.
pub const TYPED: [(&str, u8, usize); 7] = [("Sr", 200, 28), ("Rr", 201, 8), ("Sdes", 202, 4), ("Bye", 203, 4), ("App", 204, 12), ("Tfb", 205, 12), ("Pfb", 206, 12)];

pub fn be16(b: &[u8], o: usize) -> usize {
    ((b[o] as usize) << 8) | b[o + 1] as usize
}

/// Reference framing predicate for packet type `pt` with minimum `min`; returns the first
/// condition that fails.
fn framing_defect(b: &[u8], pt: Option<u8>, min: usize) -> Option<&'static str> {
    if b.len() < min || b.len() < 4 {
        return Some("shorter_than_minimum");
    }
    if b[0] >> 6 != 2 {
        return Some("version_not_2");
    }
    if let Some(pt) = pt {
        if b[1] != pt {
            return Some("wrong_packet_type");
        }
    }
    if 4 * (be16(b, 2) + 1) != b.len() {
        return Some("length_field_mismatch");
    }
    if pt.is_some() && b[0] & 0x20 != 0 && b[b.len() - 1] == 0 {
        return Some("padding_bit_with_zero_count");
    }
    let count = (b[0] & 0x1f) as usize;
    match pt {
        Some(200) if b.len() < 28 + 24 * count => Some("count_exceeds_body"),
        Some(201) if b.len() < 8 + 24 * count => Some("count_exceeds_body"),
        Some(203) if b.len() < 4 + 4 * count => Some("count_exceeds_body"),
        _ => None,
    }
}

/// A typed parser defined outside the crate on the public framing helper, the way
/// `tests/custom_packet.rs` does it; its packet type is the one value the crate itself uses as a
/// placeholder (255), its fixed part is 8 bytes.
/// Three of them: (minimum 8, type 255, the crate's own placeholder value), (minimum 14 — not a
/// whole number of words —, type 251) and (minimum 6, type 250, with a narrower MAX_COUNT).
pub struct Custom<'a, const MIN: usize, const PT: u8, const MAXC: u8> {
    data: &'a [u8],
}
impl<const MIN: usize, const PT: u8, const MAXC: u8> RtcpPacket for Custom<'_, MIN, PT, MAXC> {
    const MAX_COUNT: u8 = MAXC;
    const MIN_PACKET_LEN: usize = MIN;
    const PACKET_TYPE: u8 = PT;
}
impl<'a, const MIN: usize, const PT: u8, const MAXC: u8> RtcpPacketParser<'a> for Custom<'a, MIN, PT, MAXC> {
    fn parse(data: &'a [u8]) -> Result<Self, RtcpParseError> {
        rtcp_types::utils::parser::check_packet::<Self>(data)?;
        Ok(Custom { data })
    }
    fn header_data(&self) -> [u8; 4] {
        // MIN may be below 4 in principle; the parsers used here have MIN >= 6
        self.data[..4].try_into().unwrap()
    }
}
pub type Custom8<'a> = Custom<'a, 8, 255, 0x1f>;
pub type Custom14<'a> = Custom<'a, 14, 251, 0x1f>;
pub type Custom6<'a> = Custom<'a, 6, 250, 0x0f>;

struct Hdr {
    version: u8,
    type_: u8,
    count: u8,
    subtype: u8,
    length: usize,
}

fn header_defect(b: &[u8], h: &Hdr, padding: Option<Option<u8>>) -> Option<&'static str> {
    if h.version != b[0] >> 6 {
        return Some("version()");
    }
    if h.type_ != b[1] {
        return Some("type_()");
    }
    if h.count != b[0] & 0x1f {
        return Some("count()");
    }
    if h.subtype != b[0] & 0x1f {
        return Some("subtype()");
    }
    if h.length != 4 * (be16(b, 2) + 1) {
        return Some("length()");
    }
    if let Some(p) = padding {
        let want = if b[0] & 0x20 != 0 { Some(b[b.len() - 1]) } else { None };
        if p != want {
            return Some("padding()");
        }
    }
    None
}

macro_rules! hdr_of {
    ($v:expr) => {
        Hdr { version: $v.version(), type_: $v.type_(), count: $v.count(), subtype: $v.subtype(), length: $v.length() }
    };
}

/// Result codes per parser (for state signatures) and the first violation found.
pub struct Verdict {
    pub codes: [u8; 9],
    pub violation: Option<(String, String)>,
    pub panics: u32,
}

fn code<T>(r: &Result<T, RtcpParseError>) -> u8 {
    match r {
        Ok(_) => 0,
        Err(e) => 1 + crate::receiver::err_code(e) as u8,
    }
}

pub fn judge(b: &[u8]) -> Verdict {
    // parsed in place in the worker's reusable receive buffer, over the previous delivery
    crate::arena::deliver_in_place(b, judge_here)
}

/// Bystander traffic on the receiving thread before some deliveries (chosen by the delivered
/// bytes themselves, so a replay makes the same choice): a compound whose second member is turned
/// down on read-out, one with a version-1 member, and a healthy one, each walked to its end.
fn beside(b: &[u8]) {
    let h = crate::prng::fnv1a(crate::prng::FNV_INIT ^ b.len() as u64, &b[..b.len().min(24)]);
    if h & 7 != 0 {
        return;
    }
    const REJECTED_MEMBER: &[u8] = &[0x80, 203, 0, 0, 0x81, 201, 0, 1, 0, 0, 0, 9, 0x80, 203, 0, 0];
    const VERSION1_MEMBER: &[u8] = &[0x80, 203, 0, 0, 0x40, 210, 0, 0, 0x80, 203, 0, 0];
    const HEALTHY: &[u8] = &[0x81, 203, 0, 1, 0, 0, 0, 7, 0x80, 210, 0, 1, 1, 2, 3, 4];
    let _ = guarded(|| {
        for d in [REJECTED_MEMBER, VERSION1_MEMBER, HEALTHY] {
            if (h >> 3) & 1 == 1 && d.len() == 12 {
                continue;
            }
            if let Ok(c) = Compound::parse(d) {
                let _ = c.take(8).count();
            }
        }
    });
}

fn judge_here(b: &[u8]) -> Verdict {
    beside(b);
    let mut v = Verdict { codes: [0; 9], violation: None, panics: 0 };
    macro_rules! typed {
        ($idx:expr, $ty:ty) => {{
            let (name, pt, min) = TYPED[$idx];
            match guarded(|| {
                let r = <$ty>::parse(b);
                let c = code(&r);
                // the header accessors both ways a caller can name them: method syntax on the concrete
                // type (an inherent method of the same name would win there) and through the trait
                let acc = r.ok().map(|p| {
                    let via_trait = Hdr {
                        version: RtcpPacketParserExt::version(&p),
                        type_: RtcpPacketParserExt::type_(&p),
                        count: RtcpPacketParserExt::count(&p),
                        subtype: RtcpPacketParserExt::subtype(&p),
                        length: RtcpPacketParserExt::length(&p),
                    };
                    (hdr_of!(p), via_trait, p.padding())
                });
                (c, acc)
            }) {
                Ok((c, acc)) => {
                    v.codes[$idx] = c;
                    if let Some((h, ht, pad)) = acc {
                        if let Some(d) = framing_defect(b, Some(pt), min) {
                            v.violation.get_or_insert((format!("Accepted:{name}:{d}"), format!("{name}::parse accepted {} bytes although: {d}", b.len())));
                        } else if let Some(d) = header_defect(b, &h, Some(pad)) {
                            v.violation.get_or_insert((format!("Accessor:{name}:{d}"), format!("{name} header accessor {d} disagrees with the wire bytes")));
                        } else if let Some(d) = header_defect(b, &ht, Some(pad)) {
                            v.violation.get_or_insert((format!("Accessor:{name}:{d}"), format!("{name} header accessor {d} (called through RtcpPacketParserExt) disagrees with the wire bytes")));
                        }
                    }
                }
                Err(_) => v.panics += 1,
            }
        }};
    }
    typed!(0, SenderReport);
    typed!(1, ReceiverReport);
    typed!(2, Sdes);
    typed!(3, Bye);
    typed!(4, App);
    typed!(5, TransportFeedback);
    typed!(6, PayloadFeedback);

    // the same guarantees for a typed view obtained by CONVERSION out of what the generic parsers
    // accepted (try_as re-parses the bytes with the typed parser, or hands out the parsed variant)
    macro_rules! converted {
        ($idx:expr, $ty:ty) => {{
            let (name, pt, min) = TYPED[$idx];
            let via: [(&str, Result<Option<(Hdr, Option<u8>)>, crate::guard::PanicInfo>); 2] = [
                ("Unknown::try_as", guarded(|| Unknown::parse(b).ok().and_then(|u| u.try_as::<$ty>().ok().map(|p| (hdr_of!(p), p.padding()))))),
                ("Packet::try_as", guarded(|| Packet::parse(b).ok().and_then(|u| u.try_as::<$ty>().ok().map(|p| (hdr_of!(p), p.padding()))))),
            ];
            for (how, r) in via {
                match r {
                    Ok(Some((h, pad))) => {
                        if let Some(d) = framing_defect(b, Some(pt), min) {
                            v.violation.get_or_insert((format!("Accepted:{how}::<{name}>:{d}"), format!("{how}::<{name}> produced a {name} from {} bytes although: {d}", b.len())));
                        } else if let Some(d) = header_defect(b, &h, Some(pad)) {
                            v.violation.get_or_insert((format!("Accessor:{name}:{d}"), format!("{name} (from {how}) header accessor {d} disagrees with the wire bytes")));
                        }
                    }
                    Ok(None) => {}
                    Err(_) => v.panics += 1,
                }
            }
        }};
    }
    if b.len() >= 4 && b[0] >> 6 == 2 && 4 * (be16(b, 2) + 1) == b.len() {
        converted!(0, SenderReport);
        converted!(1, ReceiverReport);
        converted!(2, Sdes);
        converted!(3, Bye);
        converted!(4, App);
        converted!(5, TransportFeedback);
        converted!(6, PayloadFeedback);
    }
    // a typed parser defined outside the crate on the public framing helper
    macro_rules! custom {
        ($ty:ty, $pt:expr, $min:expr) => {{
            match guarded(|| <$ty>::parse(b).ok().map(|p| hdr_of!(p))) {
                Ok(Some(h)) => {
                    if let Some(d) = framing_defect(b, Some($pt), $min) {
                        v.violation.get_or_insert((format!("Accepted:Custom:{d}"), format!("a parser built on check_packet (type {}, minimum {}) accepted {} bytes although: {d}", $pt, $min, b.len())));
                    } else if let Some(d) = header_defect(b, &h, None) {
                        v.violation.get_or_insert((format!("Accessor:Custom:{d}"), format!("header accessor {d} of a parser built on check_packet (type {}) disagrees with the wire bytes", $pt)));
                    }
                }
                Ok(None) => {}
                Err(_) => v.panics += 1,
            }
        }};
    }
    custom!(Custom8, 255, 8);
    custom!(Custom14, 251, 14);
    custom!(Custom6, 250, 6);

    // Unknown: size, version and length-field conditions only
    match guarded(|| {
        let r = Unknown::parse(b);
        (code(&r), r.ok().map(|p| hdr_of!(p)))
    }) {
        Ok((c, acc)) => {
            v.codes[7] = c;
            if let Some(h) = acc {
                if let Some(d) = framing_defect(b, None, 4) {
                    v.violation.get_or_insert((format!("Accepted:Unknown:{d}"), format!("Unknown::parse accepted {} bytes although: {d}", b.len())));
                } else if let Some(d) = header_defect(b, &h, None) {
                    v.violation.get_or_insert((format!("Accessor:Unknown:{d}"), format!("Unknown header accessor {d} disagrees with the wire bytes")));
                }
            }
        }
        Err(_) => v.panics += 1,
    }

    // Packet: the guarantees of whichever type the packet-type byte names
    match guarded(|| {
        let r = Packet::parse(b);
        let c = code(&r);
        let acc = r.ok().map(|p| {
            let variant: u8 = match &p {
                Packet::Sr(_) => 200,
                Packet::Rr(_) => 201,
                Packet::Sdes(_) => 202,
                Packet::Bye(_) => 203,
                Packet::App(_) => 204,
                Packet::TransportFeedback(_) => 205,
                Packet::PayloadFeedback(_) => 206,
                Packet::Unknown(_) => 0,
            };
            let pad = match &p {
                Packet::Sr(x) => Some(x.padding()),
                Packet::Rr(x) => Some(x.padding()),
                Packet::Sdes(x) => Some(x.padding()),
                Packet::Bye(x) => Some(x.padding()),
                Packet::App(x) => Some(x.padding()),
                Packet::TransportFeedback(x) => Some(x.padding()),
                Packet::PayloadFeedback(x) => Some(x.padding()),
                Packet::Unknown(_) => None,
            };
            (hdr_of!(p), variant, pad)
        });
        (c, acc)
    }) {
        Ok((c, acc)) => {
            v.codes[8] = c;
            if let Some((h, variant, pad)) = acc {
                let named = if b.len() >= 2 && (200..=206).contains(&b[1]) { b[1] } else { 0 };
                if b.len() < 4 {
                    v.violation.get_or_insert(("Accepted:Packet:shorter_than_minimum".into(), format!("Packet::parse accepted {} bytes", b.len())));
                } else if variant != named {
                    v.violation.get_or_insert(("Accepted:Packet:wrong_variant".into(), format!("Packet::parse produced variant {variant} for packet type byte {}", b[1])));
                } else {
                    let d = if named == 0 { framing_defect(b, None, 4) } else { framing_defect(b, Some(named), TYPED[(named - 200) as usize].2) };
                    if let Some(d) = d {
                        v.violation.get_or_insert((format!("Accepted:Packet:{d}"), format!("Packet::parse accepted {} bytes (type {}) although: {d}", b.len(), b[1])));
                    } else if let Some(d) = header_defect(b, &h, pad) {
                        v.violation.get_or_insert((format!("Accessor:Packet:{d}"), format!("Packet header accessor {d} disagrees with the wire bytes")));
                    }
                }
            }
        }
        Err(_) => v.panics += 1,
    }
    v
}

fn len_class(n: usize) -> u64 {
    (n.min(2048) as u64 + 3) / 4
}

/// Shared episode body for C08 and C18 layer A: enumerate faults around seeded bases and
/// hand every delivery to `on_delivery`.
pub fn enumerate_episode(
    seed: u64,
    idx: u64,
    ctx: &mut Ctx<'_>,
    mut on_delivery: impl FnMut(&mut Ctx<'_>, &crate::traffic::Base, &Script, &[u8], bool) -> Option<(String, String)>,
    out: &mut Vec<Violation>,
) {
    let mut wl = Rng::derive(seed, "workload");
    let mut fr = Rng::derive(seed, "faults");
    let hash_key = Rng::derive(seed, "hash").next_u64();
    let gcfg = GenCfg::valid_only(&mut wl);
    let base = gen_single(&mut wl, &gcfg, hash_key);
    let mut scripts: Vec<Script> = vec![vec![]];
    let singles = single_faults_packet(&base.bytes);
    // 64 seeded pairs of arbitrary single faults (two independent deviations at once), besides
    // the 200 structured double faults
    let mut pairs: Vec<Script> = Vec::new();
    if singles.len() >= 2 {
        for _ in 0..64 {
            let a = singles[fr.below(singles.len())].clone();
            let b = singles[fr.below(singles.len())].clone();
            pairs.push(a.into_iter().chain(b).collect());
        }
    }
    scripts.extend(singles);
    scripts.extend(double_faults_packet(&mut fr, &base.bytes, 200));
    scripts.extend(pairs);
    for script in scripts.iter() {
        let (d, fired) = apply_script(&base.bytes, script);
        if !script.is_empty() && !fired {
            continue;
        }
        for f in script {
            ctx.stats.fault(f.kind_name(), 1);
        }
        ctx.stats.evaluations += 1;
        ctx.publish_raw(idx, &d, &[]);
        if let Some((class, detail)) = on_delivery(ctx, &base, script, &d, fired) {
            out.push(Violation {
                class,
                detail,
                episode: idx,
                case: J::obj().set("deliver", hex(&d)).set("previous", hex(&crate::arena::previous())),
                provenance: base.provenance().set("base", hex(&base.bytes)).set("faults", J::Arr(script.iter().map(|f| f.to_json()).collect())),
            });
        }
    }
    // the 16-bit length field, exhaustively: the first SWEEP_EPISODES episodes own 16 values each
    let sweep_base = crate::traffic::Base { bytes: Vec::new(), source: "length-field-sweep", specs: vec![] };
    for v in crate::lensweep::values_for(idx) {
        for fr in crate::lensweep::packet_frames(v, crate::lensweep::is_edge_value(v)) {
            let script: Script = vec![Fault::Hdr { tile: 0, field: HdrField::Len, val: fr.v }];
            crate::lensweep::with_frame(&fr, |d| {
                ctx.stats.fault("hdr-length-sweep", 1);
                ctx.stats.evaluations += 1;
                ctx.publish_raw(idx, d, &[]);
                if let Some((class, detail)) = on_delivery(ctx, &sweep_base, &script, d, true) {
                    out.push(Violation { class, detail, episode: idx, case: J::obj().set("deliver", hex(d)), provenance: J::obj().set("source", fr.describe()) });
                }
            });
        }
    }
}

impl Check for C08 {
    fn id(&self) -> &'static str {
        "C08"
    }
    fn level(&self) -> &'static str {
        "fault_enumeration"
    }
    fn episodes(&self, tier: Tier) -> u64 {
        match tier {
            Tier::Quick => 300_000,
            Tier::Thorough => 15_000_000,
        }
    }

    fn run_episode(&self, seed: u64, idx: u64, ctx: &mut Ctx<'_>, out: &mut Vec<Violation>) {
        enumerate_episode(
            seed,
            idx,
            ctx,
            |ctx, base, script, d, fired| {
                let v = judge(d);
                ctx.stats.events += 9;
                ctx.stats.inconclusive_panics += v.panics as u64;
                let accepted = v.codes.iter().filter(|c| **c == 0).count() as u64;
                ctx.stats.count("accepting_parser_calls", accepted);
                ctx.stats.count("rejecting_parser_calls", 9 - accepted);
                let ch = fnv1a(FNV_INIT, &v.codes);
                ctx.stats.trace_digest ^= fnv1a(ch ^ seed, &(d.len() as u64).to_le_bytes());
                if fired && d.len() >= 4 {
                    // non-trivial: a fault fired and the parsers got past the bare size check
                    let k = script.iter().fold(0u64, |a, f| a * 31 + f.kind() as u64 + 1);
                    ctx.stats.sig(&[ch, k, len_class(d.len())]);
                }
                let kind = if !fired {
                    "intact"
                } else if accepted > 0 {
                    "faulted-accepted"
                } else {
                    "faulted-rejected"
                };
                if ctx.stats.wants_sample(kind, idx) && d.len() <= 160 {
                    ctx.stats.sample(kind, idx, || {
                        J::obj()
                            .set("source", base.source)
                            .set("faults", J::Arr(script.iter().map(|f| f.to_json()).collect()))
                            .set("deliver", hex(d))
                            .set("result_codes_Sr_Rr_Sdes_Bye_App_Tfb_Pfb_Unknown_Packet", v.codes.to_vec())
                    });
                }
                v.violation
            },
            out,
        );
    }

    fn replay(&self, case: &J, log: Option<&mut Vec<String>>) -> Result<Option<(String, String)>, String> {
        let d = unhex(case.str_of("deliver")?)?;
        // a fixed history: a neutral delivery, then what the receive buffer held before
        let _ = judge(&[0x80, 203, 0, 0]);
        if let Ok(prev) = case.str_of("previous").and_then(|h| unhex(h)) {
            if !prev.is_empty() {
                let _ = judge(&prev);
            }
        }
        let v = judge(&d);
        if let Some(l) = log {
            l.push(format!("deliver {} bytes; result codes {:?}", d.len(), v.codes));
        }
        Ok(v.violation)
    }

    fn shrink(&self, case: &J) -> Vec<J> {
        let Ok(d) = case.str_of("deliver").and_then(|s| unhex(s)) else { return vec![] };
        let prev = case.str_of("previous").unwrap_or("").to_string();
        let mut out = Vec::new();
        if !prev.is_empty() {
            out.push(J::obj().set("deliver", hex(&d)));
        }
        out.extend(shrink_bytes(&d).into_iter().map(|b| if prev.is_empty() { J::obj().set("deliver", hex(&b)) } else { J::obj().set("deliver", hex(&b)).set("previous", prev.as_str()) }));
        out
    }

    fn rule(&self) -> String {
        "Per episode one intact single-packet datagram (all eight kinds, real builders or foreign encoder, with/without padding); around it the single-fault space is enumerated exhaustively (every truncation length, extensions by 1/2/3/4/8 bytes and by itself, all 256 values of header byte 0 and of the packet-type byte, length field in {0, L-2..L+2, 0xffff}, padding trailer values with P set and clear, inner length bytes) plus 200 seeded double faults (truncate+reframe, P-bit+trailer, count+truncate+reframe, junk+reframe) and 64 seeded pairs of arbitrary single faults; and, in the first 4096 episodes of a run, an exhaustive sweep of the 16-bit length field (all 65536 values x 10 packet types x 3 first-byte variants x real size = announced -4/-1/0/+1/+4); each delivery goes to the 7 typed parsers, Unknown::parse and Packet::parse. evaluations = deliveries. Non-trivial = a fault fired and the delivery is at least 4 bytes (past the bare size check); distinct = distinct (vector of per-parser result codes, fault-kind sequence, length in words).".into()
    }
    fn assumptions(&self) -> Vec<String> {
        vec![
            "exhaustive in the single-fault dimension per base datagram, sampled in base datagrams and double faults".into(),
            "besides the crate's parsers: typed views obtained by try_as from what Unknown / Packet accepted, and three parsers defined in the harness on the public check_packet helper (type 255 / min 8, type 251 / min 14, type 250 / min 6 with MAX_COUNT 15)".into(),
            "deliveries are parsed in place in one reusable receive buffer per worker, over the previous delivery; a reported case carries that previous content".into(),
            "RFC minimum sizes are hard-coded in the oracle (SR 28, RR 8, SDES 4, BYE 4, APP 12, RTPFB/PSFB 12, unknown 4)".into(),
            "only the implication accept => framed is checked; a call that unwinds is C01's finding and is counted as inconclusive here".into(),
        ]
    }
    fn components(&self) -> J {
        J::obj()
            .set("real", J::Arr(vec!["rtcp-types typed parsers, Unknown::parse, Packet::parse, header accessors".into(), "rtcp-types builders (sender, traffic)".into()]))
            .set("stub", J::Arr(vec!["channel + fault enumerator".into(), "foreign peer RFC encoder (traffic)".into(), "independent header reader (oracle)".into()]))
    }
    fn exhaustive_dimensions(&self) -> Vec<String> {
        vec!["all truncation lengths 0..len per base (len <= 640)".into(), "all 256 values of header byte 0 and of the packet-type byte per base".into(), "all 65536 values of the length field (frames of announced size -4/-1/0/+1/+4, every packet type), once per run".into()]
    }
}
