//! C20 — builder output depends on what was configured, not on how.
//!
//! Sequential refinement of a stateful API against a small reference model: a seeded call
//! history reaching a target configuration (permuted independent setters, stale overwritten
//! calls, shuffled / repeated NACK and FIR adds, owned / borrowed variant at each position,
//! PacketBuilder / one-member compound wrappers, a fresh FIR hash key) must produce the
//! bytes and size of the canonical build of the same configuration.

use crate::c06::{guarded_size, guarded_write, WRes};
use crate::engine::*;
use crate::json::{hex, J};
use crate::prng::{fnv1a, Rng, FNV_INIT};
use crate::realise::*;
use crate::shrinkb::shrink_tape;
use crate::spec::*;
use crate::tape::Tape;

pub struct C20;

#[derive(Debug, Clone, PartialEq)]
struct Built {
    size: Option<WRes>,
    write: WRes,
    bytes: Vec<u8>,
    /// `write_into_unchecked` on a buffer one word longer than announced (the length field follows
    /// the buffer): Some(Ok(image)) / Some(Err(())) when it unwound / None when not applicable
    unchecked: Option<Result<Vec<u8>, ()>>,
    /// `write_into_unchecked` on a buffer of exactly the announced size, the way a caller uses it
    /// after sizing (every shape, compounds included)
    exact: Option<Result<Vec<u8>, ()>>,
}

fn build_and_write(plan: &Plan, key: u64) -> Built {
    build_and_write_probed(plan, key, 0)
}

fn build_and_write_probed(plan: &Plan, key: u64, probes: u64) -> Built {
    build_and_write_with(plan, key, probes, 0)
}

fn build_and_write_with(plan: &Plan, key: u64, probes: u64, ctors: u64) -> Built {
    build_and_write_into(plan, key, probes, ctors, 0)
}

/// `fill`: previous contents of the output buffer.  The canonical build writes into zeros, the
/// history build into 0xa5: bytes that leak from the buffer are not "what was configured".
fn build_and_write_into(plan: &Plan, key: u64, probes: u64, ctors: u64, fill: u8) -> Built {
    build_and_write_beside(plan, key, probes, ctors, fill, None)
}

/// With a bystander: a second builder (a sibling configuration of the same type) is built on the
/// same thread while the first is alive, and its size queries and writes are interleaved with
/// those of the first.  What another builder is asked is not part of what this one was configured
/// with.
fn build_and_write_beside(plan: &Plan, key: u64, probes: u64, ctors: u64, fill: u8, bystander: Option<&Plan>) -> Built {
    match bystander {
        None => realise_with(plan, key, probes, ctors, |c| observe(c, fill, None)),
        Some(bp) => realise_with(bp, key, 0, 0, |by| realise_with(plan, key, probes, ctors, |c| observe(c, fill, Some(by)))),
    }
}

fn observe(c: &Concrete<'_>, fill: u8, by: Option<&Concrete<'_>>) -> Built {
    let disturb = |write: bool| {
        if let Some(by) = by {
            let _ = guarded_size(by);
            if write {
                let mut scratch = vec![0x33u8; 2048];
                let _ = guarded_write(by, &mut scratch);
            }
        }
    };
    {
        let size = guarded_size(c);
        disturb(true);
        let n = match &size {
            Some(WRes::Ok(n)) => (*n).min(1 << 20),
            _ => 600,
        };
        let mut buf = vec![fill; n + 4];
        let write = guarded_write(c, &mut buf);
        let used = match &write {
            WRes::Ok(w) => (*w).min(buf.len()),
            _ => 0,
        };
        buf.truncate(used);
        disturb(false);
        let exact = match (&size, &write) {
            (Some(WRes::Ok(n)), WRes::Ok(_)) if *n <= 4096 => {
                let mut eb = vec![fill; *n];
                match crate::guard::guarded(|| c.write_unchecked(&mut eb)) {
                    Ok(Some(w)) => {
                        eb.truncate(w.min(*n));
                        Some(Ok(eb))
                    }
                    Ok(None) => None,
                    Err(_) => Some(Err(())),
                }
            }
            _ => None,
        };
        disturb(false);
        let unchecked = match (&size, &write) {
            (Some(WRes::Ok(n)), WRes::Ok(_)) if *n >= 4 && *n <= 4096 && n % 4 == 0 => {
                let mut big = vec![fill; n + 4];
                match crate::guard::guarded(|| c.write_unchecked(&mut big)) {
                    Ok(Some(w)) => {
                        big.truncate(w.min(n + 4));
                        Some(Ok(big))
                    }
                    Ok(None) => None,
                    Err(_) => Some(Err(())),
                }
            }
            _ => None,
        };
        Built { size, write, bytes: buf, unchecked, exact }
    }
}

/// Byte equality, except that the 8-byte entries of a FIR FCI are compared as a multiset.
fn same_bytes(spec: &Spec, a: &[u8], b: &[u8], tail: usize) -> bool {
    if a == b {
        return true;
    }
    // a fixed packet appended behind both images (nesting wrappers): equal there, compare the rest
    if tail > 0 {
        if a.len() < tail || b.len() < tail || a[a.len() - tail..] != b[b.len() - tail..] {
            return false;
        }
        return same_bytes(spec, &a[..a.len() - tail], &b[..b.len() - tail], 0);
    }
    let inner = match spec {
        Spec::Pb(i) => i.as_ref(),
        Spec::Compound { members } if members.len() == 1 => &members[0],
        s => s,
    };
    // a compound of several packets: member by member (a FIR member may order its entries differently)
    if let Spec::Compound { members } = inner {
        // member boundaries come from the members' own sizes, not from the length fields in the
        // image: a member of more than 65536 words carries a wrapped length field
        if a.len() != b.len() {
            return false;
        }
        let mut off = 0usize;
        for m in members {
            let img = build_and_write(&plan_canonical(m), 0);
            let l = match img.write {
                WRes::Ok(n) => n,
                _ => return false,
            };
            if off + l > a.len() || !same_bytes(m, &a[off..off + l], &b[off..off + l], 0) {
                return false;
            }
            off += l;
        }
        return off == a.len();
    }
    if let Spec::FciOnly(Fci::Fir { .. }) = inner {
        if a.len() != b.len() || a.len() % 8 != 0 {
            return false;
        }
        let mut ea: Vec<&[u8]> = a.chunks(8).collect();
        let mut eb: Vec<&[u8]> = b.chunks(8).collect();
        ea.sort();
        eb.sort();
        return ea == eb;
    }
    if let Spec::Fb { fci: Fci::Fir { .. }, padding, .. } = inner {
        if a.len() != b.len() || a.len() < 12 {
            return false;
        }
        let end = a.len().saturating_sub(*padding as usize).max(12);
        if a[..12] != b[..12] || a[end..] != b[end..] || (end - 12) % 8 != 0 {
            return false;
        }
        let mut ea: Vec<&[u8]> = a[12..end].chunks(8).collect();
        let mut eb: Vec<&[u8]> = b[12..end].chunks(8).collect();
        ea.sort();
        eb.sort();
        return ea == eb;
    }
    false
}

/// "List-adding calls preserve insertion order": the image of a builder with several adds is
/// the concatenation, in call order, of the element images that one-add builders produce.
/// (Comparing two real builds of the same list cannot see a reordering that both share.)
fn append_check(spec: &Spec, key: u64, applicable: &mut bool) -> Option<(String, String)> {
    let img = |s: &Spec| -> Option<Vec<u8>> {
        let b = build_and_write(&plan_canonical(s), key);
        match b.write {
            WRes::Ok(_) => Some(b.bytes),
            _ => None,
        }
    };
    let kind = spec.kind_name();
    // (whole image, offset of the list region, per-element images with the offset of the element inside them)
    let (whole, start, elems): (Vec<u8>, usize, Vec<Vec<u8>>) = match spec {
        Spec::Sr { ssrc, ntp, rtp, pc, oc, blocks, .. } if blocks.len() >= 2 => {
            let mk = |b: Vec<Rb>| Spec::Sr { ssrc: *ssrc, ntp: *ntp, rtp: *rtp, pc: *pc, oc: *oc, blocks: b, padding: 0 };
            let mut e = Vec::new();
            for b in blocks {
                e.push(img(&mk(vec![b.clone()]))?.get(28..52)?.to_vec());
            }
            (img(&mk(blocks.clone()))?, 28, e)
        }
        Spec::Rr { ssrc, blocks, .. } if blocks.len() >= 2 => {
            let mk = |b: Vec<Rb>| Spec::Rr { ssrc: *ssrc, blocks: b, padding: 0 };
            let mut e = Vec::new();
            for b in blocks {
                e.push(img(&mk(vec![b.clone()]))?.get(8..32)?.to_vec());
            }
            (img(&mk(blocks.clone()))?, 8, e)
        }
        Spec::Bye { sources, .. } if sources.len() >= 2 => {
            let mk = |s: Vec<u32>| Spec::Bye { sources: s, reason: String::new(), padding: 0 };
            let mut e = Vec::new();
            for s in sources {
                e.push(img(&mk(vec![*s]))?.get(4..8)?.to_vec());
            }
            (img(&mk(sources.clone()))?, 4, e)
        }
        Spec::Sdes { chunks, .. } if chunks.len() >= 2 => {
            let mk = |c: Vec<Chunk>| Spec::Sdes { chunks: c, padding: 0 };
            let mut e = Vec::new();
            for c in chunks {
                e.push(img(&mk(vec![c.clone()]))?.get(4..)?.to_vec());
            }
            (img(&mk(chunks.clone()))?, 4, e)
        }
        Spec::ChunkOnly(c) if c.items.len() >= 2 => {
            let mut e = Vec::new();
            for i in &c.items {
                e.push(img(&Spec::ItemOnly(i.clone()))?);
            }
            (img(spec)?, 4, e)
        }
        Spec::Fb { kind: k, sender, media, fci: Fci::Sli { entries }, .. } if entries.len() >= 2 => {
            let mk = |en: Vec<(u16, u16, u8)>| Spec::Fb { kind: *k, sender: *sender, media: *media, fci: Fci::Sli { entries: en }, padding: 0 };
            let mut e = Vec::new();
            for en in entries {
                e.push(img(&mk(vec![*en]))?.get(12..16)?.to_vec());
            }
            (img(&mk(entries.clone()))?, 12, e)
        }
        Spec::Compound { members } if members.len() >= 2 => {
            let mut e = Vec::new();
            for m in members {
                e.push(img(m)?);
            }
            (img(spec)?, 0, e)
        }
        Spec::FciOnly(Fci::Sli { entries }) if entries.len() >= 2 => {
            let mut e = Vec::new();
            for en in entries {
                e.push(img(&Spec::FciOnly(Fci::Sli { entries: vec![*en] }))?);
            }
            (img(spec)?, 0, e)
        }
        _ => return None,
    };
    *applicable = true;
    let mut off = start;
    for (i, e) in elems.iter().enumerate() {
        if whole.get(off..off + e.len()) != Some(e.as_slice()) {
            return Some((
                format!("append_order@{kind}"),
                format!("element {i} of the list is not found at its insertion position (byte {off}): builder image {} vs one-element image {}", hex(&whole), hex(e)),
            ));
        }
        off += e.len();
    }
    None
}

struct Run {
    beside: bool,
    probed: bool,
    alt_ctors: bool,
    wrap: usize,
    appended: bool,
    violation: Option<(String, String)>,
    inconclusive: bool,
    shape: u64,
    log: Vec<String>,
}

/// The whole C20 case: spec + tape (history choices) + two hash keys.
fn run_case(spec: &Spec, tape: &mut Tape, key_canon: u64, key_var: u64) -> Result<Run, String> {
    let mut spec = spec.clone();
    spec.normalise();
    let wrap = if spec.is_whole_packet() && !matches!(spec, Spec::Third { .. } | Spec::Compound { .. } | Spec::Pb(_)) { tape.choose(5) } else { 0 };
    let variant_inner = plan_with(&spec, tape);
    // harness self-check: the history reaches the target configuration under the model
    let mut reached = model(&variant_inner);
    reached.normalise();
    if reached != spec {
        return Err(format!("harness: history does not reach the target spec under the model\n target {:?}\n reached {:?}\n plan {:?}", spec, reached, variant_inner));
    }
    let canonical = plan_canonical(&spec);
    // wrappers: the packet-builder enum, a one-member compound, and both of them again as a
    // NON-LAST member of an outer compound (where the outer builder asks the wrapper for its
    // padding): the bare packet in the same position is the counterpart
    let tail_plan = || plan_canonical(&Spec::Bye { sources: vec![], reason: String::new(), padding: 0 });
    let mut tail = 0usize;
    let (canonical, variant) = match (wrap, variant_inner) {
        (1, Plan::Packet(pp)) => (canonical, Plan::Pb(pp)),
        (2, p @ Plan::Packet(_)) => (canonical, Plan::Compound(vec![p])),
        (3, p @ Plan::Packet(_)) => {
            tail = 4;
            (Plan::Compound(vec![canonical, tail_plan()]), Plan::Compound(vec![Plan::Compound(vec![p]), tail_plan()]))
        }
        (4, Plan::Packet(pp)) => {
            tail = 4;
            (Plan::Compound(vec![canonical, tail_plan()]), Plan::Compound(vec![Plan::Pb(pp), tail_plan()]))
        }
        (_, p) => (canonical, p),
    };
    // observations of the unfinished builder (size queries, scratch writes) between the calls
    // of the history are part of "how", not of "what was configured"
    let probes = if tape.choose(3) == 2 { tape.value() as u64 | ((tape.value() as u64) << 32) } else { 0 };
    let shape = fnv1a(FNV_INIT, format!("{}{}", shape_of(&variant), if probes != 0 { "+probed" } else { "" }).as_bytes());
    // constructor forms: `X::builder(..)` or the public sibling (`XBuilder::new` / `::default()`)
    let ctors = if tape.choose(3) == 2 { tape.value() as u64 | ((tape.value() as u64) << 32) } else { 0 };
    // a bystander: a sibling builder alive on the same thread, its calls interleaved with ours
    let beside = tape.choose(4) == 3;
    let shape = if beside { fnv1a(shape, b"+beside") } else { shape };
    // ... of the same outer shape as the variant (the same wrappers around the sibling)
    let bystander = if beside {
        // a sibling of another size, or one of exactly the same shape with other values
        let sib = plan_canonical(&if tape.choose(2) == 1 { spec.sibling_same_shape() } else { spec.sibling() });
        Some(match (wrap, sib) {
            (1, Plan::Packet(pp)) => Plan::Pb(pp),
            (2, p @ Plan::Packet(_)) => Plan::Compound(vec![p]),
            (3, p @ Plan::Packet(_)) => Plan::Compound(vec![Plan::Compound(vec![p]), tail_plan()]),
            (4, Plan::Packet(pp)) => Plan::Compound(vec![Plan::Pb(pp), tail_plan()]),
            (_, p) => p,
        })
    } else {
        None
    };
    let a = build_and_write(&canonical, key_canon);
    let b = build_and_write_beside(&variant, key_var, probes, ctors, 0xa5, bystander.as_ref());
    let mut log = vec![format!("canonical: {canonical:?}"), format!("variant:   {variant:?}"), format!("canonical -> size {:?} write {:?} bytes {}", a.size, a.write, hex(&a.bytes)), format!("variant   -> size {:?} write {:?} bytes {}", b.size, b.write, hex(&b.bytes))];
    log.truncate(6);
    let kind = spec.kind_name();
    let pa = matches!(a.write, WRes::Panic(_)) || matches!(a.size, Some(WRes::Panic(_)));
    let pb = matches!(b.write, WRes::Panic(_)) || matches!(b.size, Some(WRes::Panic(_)));
    let mut run = Run { beside, probed: probes != 0, alt_ctors: ctors != 0, wrap, appended: false, violation: None, inconclusive: false, shape, log };
    if pa && pb {
        run.inconclusive = true;
        return Ok(run);
    }
    if pa != pb {
        run.violation = Some((format!("history_dependent_panic@{kind}"), format!("only the {} build unwinds", if pa { "canonical" } else { "history" })));
        return Ok(run);
    }
    // part builders have no size function; compound wrapper of a part cannot occur
    if a.size != b.size {
        run.violation = Some((format!("size_differs@{kind}"), format!("canonical build announces {:?}, the history-built object {:?}", a.size, b.size)));
        return Ok(run);
    }
    if a.write != b.write {
        run.violation = Some((format!("write_result_differs@{kind}"), format!("canonical build: {:?}, history-built object: {:?}", a.write, b.write)));
        return Ok(run);
    }
    if !same_bytes(&spec, &a.bytes, &b.bytes, tail) {
        let i = a.bytes.iter().zip(b.bytes.iter()).position(|(x, y)| x != y).unwrap_or(a.bytes.len().min(b.bytes.len()));
        run.violation = Some((format!("bytes_differ@{kind}"), format!("first difference at byte {i} of {} / {}: canonical ..{} vs history-built ..{}", a.bytes.len(), b.bytes.len(), hex(&a.bytes[i.saturating_sub(8).min(a.bytes.len())..(i + 24).min(a.bytes.len())]), hex(&b.bytes[i.saturating_sub(8).min(b.bytes.len())..(i + 24).min(b.bytes.len())]))));
        return Ok(run);
    }
    // the unchecked writer with a longer buffer: the same builder reached another way, or the
    // packet-builder wrapper, must do what the bare canonical builder does (a compound slices the
    // buffer per member, so it is not comparable there)
    if wrap <= 1 && !matches!(spec, Spec::Compound { .. }) {
        match (&a.unchecked, &b.unchecked) {
            (Some(Ok(x)), Some(Ok(y))) => {
                if !same_bytes(&spec, x, y, 0) {
                    run.violation = Some((format!("unchecked_bytes_differ@{kind}"), format!("write_into_unchecked into {} bytes: canonical {} vs history-built {}", x.len().max(y.len()), hex(x), hex(y))));
                    return Ok(run);
                }
            }
            (Some(Ok(_)), Some(Err(()))) | (Some(Err(())), Some(Ok(_))) => {
                run.violation = Some((format!("unchecked_panic_differs@{kind}"), "write_into_unchecked into a longer buffer unwinds for only one of the two builds".into()));
                return Ok(run);
            }
            _ => {}
        }
    }
    // the unchecked writer on an exactly sized buffer (sizing, then writing without a second check)
    match (&a.exact, &b.exact) {
        (Some(Ok(x)), Some(Ok(y))) => {
            if !same_bytes(&spec, x, y, tail) {
                run.violation = Some((format!("unchecked_exact_bytes_differ@{kind}"), format!("write_into_unchecked into exactly the announced size: canonical {} vs history-built {}", hex(x), hex(y))));
                return Ok(run);
            }
        }
        (Some(Ok(_)), Some(Err(()))) | (Some(Err(())), Some(Ok(_))) => {
            run.violation = Some((format!("unchecked_exact_panic_differs@{kind}"), "write_into_unchecked into exactly the announced size unwinds for only one of the two builds".into()));
            return Ok(run);
        }
        _ => {}
    }
    if matches!(a.write, WRes::Ok(_)) {
        let mut applicable = false;
        run.violation = append_check(&spec, key_canon, &mut applicable);
        run.appended = applicable;
    }
    Ok(run)
}

/// History shape: builder type, multiset of op kinds, position class of each owned conversion.
fn shape_of(p: &Plan) -> String {
    fn pk(pp: &PacketPlan, out: &mut String) {
        out.push_str(match &pp.ctor {
            Ctor::Sr(_) => "sr",
            Ctor::Rr(_) => "rr",
            Ctor::Sdes => "sdes",
            Ctor::Bye => "bye",
            Ctor::App(..) => "app",
            Ctor::Unknown(..) => "unk",
            Ctor::Fb { .. } => "fb",
        });
        if let Ctor::Fb { fci, owned, .. } = &pp.ctor {
            out.push_str(if *owned { "+owned" } else { "+borrowed" });
            match fci {
                FciPlan::Nack(v) => out.push_str(&format!("+nack{}", v.len().min(6))),
                FciPlan::Fir(v) => out.push_str(&format!("+fir{}", v.len().min(6))),
                FciPlan::Sli(v) => out.push_str(&format!("+sli{}", v.len().min(3))),
                FciPlan::Rpsi(st) => {
                    out.push_str("+rpsi");
                    for s in st {
                        out.push(match s {
                            RpsiStep::Pt(_) => 'p',
                            RpsiStep::Data { owned: true, .. } => 'O',
                            RpsiStep::Data { .. } => 'd',
                        });
                    }
                }
                FciPlan::Pli => out.push_str("+pli"),
            }
        }
        let n = pp.ops.len().max(1);
        let mut kinds: Vec<String> = Vec::new();
        for (i, op) in pp.ops.iter().enumerate() {
            let pos = if i == 0 { 'f' } else if i + 1 == n { 'l' } else { 'm' };
            kinds.push(match op {
                Op::Padding(_) => "pad".into(),
                Op::Ntp(_) | Op::Rtp(_) | Op::Pc(_) | Op::Oc(_) => "sr-field".into(),
                Op::Block(b) => format!("block{}", b.calls.len().min(3)),
                Op::Source(_) => "src".into(),
                Op::Reason { owned, form, .. } => format!("reason-{}-{:?}-{pos}", if *owned { "owned" } else { "b" }, form),
                Op::Subtype(_) => "subtype".into(),
                Op::AppData(_) => "data".into(),
                Op::Count(_) => "count".into(),
                Op::Sender(_) | Op::Media(_) => "ssrc".into(),
                Op::Chunk(c) => {
                    let mut s = String::from("chunk");
                    for (it, owned) in c.items.iter().take(3) {
                        s.push(if *owned { 'O' } else { 'a' });
                        for st in &it.steps {
                            s.push(match st {
                                ItemStep::Prefix(..) => 'p',
                                ItemStep::IntoOwned => 'o',
                            });
                        }
                    }
                    s
                }
            });
        }
        // order class: which kind of op comes first / last, plus the multiset
        let first = kinds.first().cloned().unwrap_or_default();
        let last = kinds.last().cloned().unwrap_or_default();
        kinds.sort();
        kinds.dedup();
        out.push_str(&format!("[{first}..{last}]{{{}}}", kinds.join(",")));
    }
    let mut s = String::new();
    match p {
        Plan::Packet(pp) => pk(pp, &mut s),
        Plan::Pb(pp) => {
            s.push_str("pb:");
            pk(pp, &mut s)
        }
        Plan::Compound(ms) => {
            s.push_str(if ms.len() > 1 { "nested:" } else { "c1:" });
            match ms.first() {
                Some(Plan::Packet(pp)) => pk(pp, &mut s),
                Some(Plan::Pb(pp)) => {
                    s.push_str("pb:");
                    pk(pp, &mut s)
                }
                Some(Plan::Compound(inner)) => {
                    s.push_str("c1:");
                    if let Some(Plan::Packet(pp)) = inner.first() {
                        pk(pp, &mut s)
                    }
                }
                _ => {}
            }
        }
        Plan::Chunk(c) => s.push_str(&format!("chunk{}", c.items.len().min(4))),
        Plan::Item(i) => s.push_str(&format!("item{:?}{}", i.form, i.steps.len())),
        Plan::Third { .. } => s.push_str("third"),
        Plan::Fci(f) => s.push_str(&format!("fci:{}", match f {
            FciPlan::Nack(v) => format!("nack{}", v.len().min(6)),
            FciPlan::Fir(v) => format!("fir{}", v.len().min(6)),
            FciPlan::Sli(v) => format!("sli{}", v.len().min(6)),
            FciPlan::Rpsi(v) => format!("rpsi{}", v.len().min(6)),
            FciPlan::Pli => "pli".to_string(),
        })),
    }
    s
}

fn case_json(spec: &Spec, tape: &[u32], k1: u64, k2: u64) -> J {
    J::obj().set("spec", spec.to_json()).set("tape", tape.to_vec()).set("hash_key_canonical", k1).set("hash_key_history", k2)
}

impl Check for C20 {
    fn id(&self) -> &'static str {
        "C20"
    }
    fn level(&self) -> &'static str {
        "exploration"
    }
    fn episodes(&self, tier: Tier) -> u64 {
        match tier {
            Tier::Quick => 6_000_000,
            Tier::Thorough => 300_000_000,
        }
    }
    fn same_class(&self, a: &str, b: &str) -> bool {
        a.split('@').next() == b.split('@').next()
    }

    fn run_episode(&self, seed: u64, idx: u64, ctx: &mut Ctx<'_>, out: &mut Vec<Violation>) {
        let mut wl = Rng::derive(seed, "workload");
        let mut hr = Rng::derive(seed, "hash");
        let gcfg = GenCfg { wrappers: false, third: false, large: true, ..GenCfg::draw(&mut wl) };
        let spec = if gcfg.parts && wl.chance(1, 10) {
            match wl.below(3) {
                0 => Spec::ChunkOnly(gen_chunk(&mut wl, &gcfg)),
                1 => Spec::ItemOnly(gen_item(&mut wl, &gcfg)),
                _ => Spec::FciOnly(gen_fci(&mut wl, &gcfg)),
            }
        } else if wl.chance(1, 12) {
            // add_packet is a list-adding call too: a compound of 2-4 packets (padding on the last only)
            let n = wl.range(2, 4);
            let mut members: Vec<Spec> = (0..n).map(|_| gen_packet(&mut wl, &gcfg)).collect();
            for m in members.iter_mut().take(n - 1) {
                strip_padding(m);
            }
            // one member in three compounds is itself a compound of two packets
            if wl.chance(1, 3) {
                let k = wl.below(n);
                let mut inner = vec![gen_packet(&mut wl, &gcfg), gen_packet(&mut wl, &gcfg)];
                strip_padding(&mut inner[0]);
                if k != n - 1 {
                    strip_padding(&mut inner[1]);
                }
                members[k] = Spec::Compound { members: inner };
            }
            Spec::Compound { members }
        } else {
            gen_packet(&mut wl, &gcfg)
        };
        let (k1, k2) = (hr.next_u64(), hr.next_u64());
        let mut tape = Tape::recording(Rng::derive(seed, "history"));
        let run = match run_case(&spec, &mut tape, k1, k2) {
            Ok(r) => r,
            Err(e) => panic!("{e}"),
        };
        ctx.stats.evaluations += 1;
        ctx.stats.events += 4;
        ctx.stats.fault("call-history", 1);
        ctx.stats.fault("hash-key", 1);
        ctx.stats.fault("buffer-residue", 1);
        if run.probed {
            ctx.stats.fault("observation-probes", 1);
        }
        if run.alt_ctors {
            ctx.stats.fault("constructor-forms", 1);
        }
        if run.beside {
            ctx.stats.fault("bystander-builder", 1);
        }
        if run.wrap > 0 {
            ctx.stats.fault(["", "wrapper-packet-builder", "wrapper-one-member-compound", "wrapper-nested-non-last", "wrapper-nested-non-last"][run.wrap.min(4)], 1);
        }
        ctx.stats.trace_digest ^= fnv1a(seed, &run.shape.to_le_bytes());
        if run.inconclusive {
            ctx.stats.inconclusive_panics += 1;
        }
        if run.appended {
            ctx.stats.count("append_order_checks", 1);
        }
        if tape.rec.iter().any(|v| *v != 0) {
            // non-trivial: the history differs from the canonical one somewhere
            ctx.stats.sig(&[run.shape]);
        }
        let kind = spec.kind_name();
        if ctx.stats.wants_sample(&kind, idx) && spec.weight() < 40 {
            let lg = run.log.clone();
            ctx.stats.sample(&kind, idx, || J::obj().set("spec", spec.to_json()).set("tape", tape.rec.clone()).set("builds", J::Arr(lg.into_iter().map(J::from).collect())));
        }
        if let Some((class, detail)) = run.violation {
            out.push(Violation { class, detail, episode: idx, case: case_json(&spec, &tape.rec, k1, k2), provenance: J::obj().set("swarm", gcfg.to_json()) });
        }
    }

    fn replay(&self, case: &J, log: Option<&mut Vec<String>>) -> Result<Option<(String, String)>, String> {
        let spec = Spec::from_json(case.obj_of("spec")?)?;
        let tape = case.arr_of("tape")?.iter().map(|v| v.as_u64().map(|x| x as u32).ok_or("tape".to_string())).collect::<Result<Vec<_>, _>>()?;
        let mut t = Tape::replaying(tape);
        let run = run_case(&spec, &mut t, case.u64_of("hash_key_canonical")?, case.u64_of("hash_key_history")?)?;
        if let Some(l) = log {
            *l = run.log;
        }
        Ok(run.violation)
    }

    fn shrink(&self, case: &J) -> Vec<J> {
        let Ok(spec) = case.obj_of("spec").and_then(Spec::from_json) else { return vec![] };
        let tape: Vec<u32> = case.arr_of("tape").map(|a| a.iter().filter_map(|v| v.as_u64().map(|x| x as u32)).collect()).unwrap_or_default();
        let (k1, k2) = (case.u64_of("hash_key_canonical").unwrap_or(0), case.u64_of("hash_key_history").unwrap_or(0));
        let mut out = Vec::new();
        for t in shrink_tape(&tape).into_iter().take(3) {
            out.push(case_json(&spec, &t, k1, k2));
        }
        for s in spec.shrinks() {
            out.push(case_json(&s, &tape, k1, k2));
        }
        for t in shrink_tape(&tape).into_iter().skip(3) {
            out.push(case_json(&spec, &t, k1, k2));
        }
        if (k1, k2) != (0, 1) {
            out.push(case_json(&spec, &tape, 0, 1));
        }
        out
    }

    fn rule(&self) -> String {
        "Per episode one target configuration of a packet builder (SR, RR, SDES, BYE, APP, Unknown, feedback x FCI; valid and invalid), of a compound of 2-4 packets, or of a chunk / item / stand-alone FCI builder, and one tape-driven call history reaching it: independent setters interleaved in a seeded order, 0-3 stale overwritten calls per setter, a default-valued setter left out, list adds in order interleaved anywhere, NACK numbers shuffled and re-added, FIR SSRCs re-added with stale sequences first, RPSI payload_type / native_data interleaved, and at each position a seeded variant (&str | String | Cow borrowed | Cow owned; reason vs reason_owned; prefix(&[u8] | Vec); into_owned before / after prefix; add_item vs add_item_owned; native_data vs native_data_owned; builder(&fci) vs builder_owned(fci); bare vs PacketBuilder::from vs one-member CompoundBuilder, each also as a non-last member of an outer compound; X::builder(..) vs XBuilder::new(..) / ::default()), optionally with size queries, scratch writes and Debug renderings of the unfinished builders between the calls, built under a different FIR hash key than the canonical build. Lists (report blocks, sources, chunks, items, SLI runs, compound members) are also compared with the concatenation of one-element images in call order. The history is first applied to the reference model and must give the target back. evaluations = (canonical, history) build pairs. Non-trivial = the history differs from the canonical one in at least one choice; distinct = distinct history shapes (builder type, FCI kind and owned/borrowed, multiset of op kinds with the position class and argument form of each owned conversion, first and last op kind, wrapper). In a quarter of the histories a bystander (a sibling builder of the same type and outer shape, different size) is alive on the same thread and its calculate_size / write_into calls are interleaved with those of the observed builder; write_into_unchecked into exactly the announced size is compared for every shape.".into()
    }
    fn assumptions(&self) -> Vec<String> {
        vec![
            "FIR FCI is compared as a multiset of 8-byte entries (the statement allows any order), everything else byte-exact".into(),
            "if both builds unwind the pair is inconclusive (C06's business); if exactly one does, it is a violation".into(),
            "sampling of histories, not proof".into(),
        ]
    }
    fn components(&self) -> J {
        J::obj()
            .set("real", J::Arr(vec!["every rtcp-types builder method incl. owned/borrowed variants, PacketBuilder, CompoundBuilder, FCI wrappers".into(), "FirBuilder's HashMap under the verif-hooks seeded hasher".into()]))
            .set("stub", J::Arr(vec!["reference model of builder state (setters overwrite, adds append, NACK union, FIR last-wins)".into(), "history generator (tape)".into()]))
    }
    fn exhaustive_dimensions(&self) -> Vec<String> {
        vec![]
    }
}
