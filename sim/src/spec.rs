//! Abstract packet specification: the reference-model state of a builder configuration.
//! Plain data mirroring each builder's configuration, including configurations the
//! builders must reject.  (DESIGN.md appendix A.1)

use crate::json::{hex, unhex, J};
use crate::prng::Rng;

#[derive(Clone, Debug, PartialEq, Eq, Default)]
pub struct Rb {
    pub ssrc: u32,
    pub fraction: u8,
    pub cum_lost: u32,
    pub ext_seq: u32,
    pub jitter: u32,
    pub lsr: u32,
    pub dlsr: u32,
}

#[derive(Clone, Debug, PartialEq, Eq)]
pub struct Item {
    pub ty: u8,
    pub prefix: Vec<u8>,
    pub value: String,
}

#[derive(Clone, Debug, PartialEq, Eq)]
pub struct Chunk {
    pub ssrc: u32,
    pub items: Vec<Item>,
}

#[derive(Clone, Debug, PartialEq, Eq)]
pub enum Fci {
    Nack { seqs: Vec<u16> },
    Fir { entries: Vec<(u32, u8)> },
    Sli { entries: Vec<(u16, u16, u8)> },
    Rpsi { pt: u8, bits: Vec<u8>, overrun: u8 },
    Pli,
}

#[derive(Clone, Copy, Debug, PartialEq, Eq)]
pub enum FbKind {
    Transport,
    Payload,
}

#[derive(Clone, Debug, PartialEq, Eq)]
pub enum Spec {
    Sr { ssrc: u32, ntp: u64, rtp: u32, pc: u32, oc: u32, blocks: Vec<Rb>, padding: u8 },
    Rr { ssrc: u32, blocks: Vec<Rb>, padding: u8 },
    Sdes { chunks: Vec<Chunk>, padding: u8 },
    Bye { sources: Vec<u32>, reason: String, padding: u8 },
    App { ssrc: u32, subtype: u8, name: String, data: Vec<u8>, padding: u8 },
    Unknown { pt: u8, count: u8, data: Vec<u8>, padding: u8 },
    Fb { kind: FbKind, sender: u32, media: u32, fci: Fci, padding: u8 },
    /// A packet type defined by the harness on top of the public `utils::writer` helpers.
    Third { pt: u8, count: u8, ssrc: u32, payload: Vec<u8>, padding: u8 },
    Compound { members: Vec<Spec> },
    /// The same member wrapped in the `PacketBuilder` enum (only for the eight built-in kinds).
    Pb(Box<Spec>),
    ChunkOnly(Chunk),
    ItemOnly(Item),
    /// An FCI builder used on its own: the FCI builders are public `RtcpPacketWriter`s.
    FciOnly(Fci),
}

impl Fci {
    /// Normal form under the model: NACK is a set, FIR a map (entry order is irrelevant).
    pub fn normalise(&mut self) {
        match self {
            Fci::Nack { seqs } => {
                seqs.sort_unstable();
                seqs.dedup();
            }
            Fci::Fir { entries } => {
                // last write wins
                let mut m: std::collections::BTreeMap<u32, u8> = std::collections::BTreeMap::new();
                for (s, q) in entries.iter() {
                    m.insert(*s, *q);
                }
                *entries = m.into_iter().collect();
            }
            _ => {}
        }
    }
    pub fn kind_name(&self) -> &'static str {
        match self {
            Fci::Nack { .. } => "nack",
            Fci::Fir { .. } => "fir",
            Fci::Sli { .. } => "sli",
            Fci::Rpsi { .. } => "rpsi",
            Fci::Pli => "pli",
        }
    }
}

impl Spec {
    pub fn kind_name(&self) -> String {
        match self {
            Spec::Sr { .. } => "sr".into(),
            Spec::Rr { .. } => "rr".into(),
            Spec::Sdes { .. } => "sdes".into(),
            Spec::Bye { .. } => "bye".into(),
            Spec::App { .. } => "app".into(),
            Spec::Unknown { .. } => "unknown".into(),
            Spec::Fb { kind, fci, .. } => format!(
                "{}fb+{}",
                if *kind == FbKind::Transport { "t" } else { "p" },
                fci.kind_name()
            ),
            Spec::Third { .. } => "third".into(),
            Spec::Compound { .. } => "compound".into(),
            Spec::Pb(i) => format!("pb({})", i.kind_name()),
            Spec::ChunkOnly(_) => "chunk".into(),
            Spec::ItemOnly(_) => "item".into(),
            Spec::FciOnly(f) => format!("fci:{}", f.kind_name()),
        }
    }

    pub fn padding(&self) -> u8 {
        match self {
            Spec::Sr { padding, .. }
            | Spec::Rr { padding, .. }
            | Spec::Sdes { padding, .. }
            | Spec::Bye { padding, .. }
            | Spec::App { padding, .. }
            | Spec::Unknown { padding, .. }
            | Spec::Fb { padding, .. }
            | Spec::Third { padding, .. } => *padding,
            Spec::Pb(i) => i.padding(),
            Spec::Compound { members } => members.last().map(|m| m.padding()).unwrap_or(0),
            _ => 0,
        }
    }

    /// A packet of the crate's own making (its size must be a multiple of 4): not a part builder,
    /// and not (a compound around) the harness's unaligned third-party writer.
    pub fn is_whole_packet(&self) -> bool {
        !matches!(self, Spec::ChunkOnly(_) | Spec::ItemOnly(_) | Spec::FciOnly(_)) && !self.contains_raw_third()
    }

    pub fn contains_raw_third(&self) -> bool {
        match self {
            Spec::Third { pt, payload, .. } => *pt == 254 && payload.len() % 4 != 0,
            Spec::Compound { members } => members.iter().any(|m| m.contains_raw_third()),
            Spec::Pb(i) => i.contains_raw_third(),
            _ => false,
        }
    }

    pub fn normalise(&mut self) {
        match self {
            Spec::Fb { fci, .. } | Spec::FciOnly(fci) => fci.normalise(),
            Spec::Compound { members } => members.iter_mut().for_each(|m| m.normalise()),
            Spec::Pb(i) => i.normalise(),
            _ => {}
        }
    }

    /// A sibling configuration: the same builder type and the same structure (member count of a
    /// compound included) with a different body size.  Used as a bystander: a second builder alive
    /// on the same thread whose calls are interleaved with those of the builder under observation.
    pub fn sibling(&self) -> Spec {
        let mut s = self.clone();
        fn grow_fci(f: &mut Fci) {
            match f {
                Fci::Nack { seqs } => seqs.push(seqs.iter().copied().max().unwrap_or(7).wrapping_add(40)),
                Fci::Fir { entries } => entries.push((entries.iter().map(|e| e.0).max().unwrap_or(5).wrapping_add(3), 9)),
                Fci::Sli { entries } => entries.push((1, 2, 3)),
                Fci::Rpsi { bits, .. } => bits.extend_from_slice(&[0x5a; 4]),
                Fci::Pli => {}
            }
        }
        match &mut s {
            Spec::Sr { blocks, .. } | Spec::Rr { blocks, .. } => {
                if blocks.len() < 31 {
                    blocks.push(Rb { ssrc: 0x5151_5151, ..Rb::default() });
                } else {
                    blocks.pop();
                }
            }
            Spec::Sdes { chunks, .. } => chunks.push(Chunk { ssrc: 0x5151_5151, items: vec![Item { ty: 1, prefix: vec![], value: "bystander".into() }] }),
            Spec::Bye { sources, .. } => {
                if sources.len() < 31 {
                    sources.push(0x5151_5151);
                } else {
                    sources.pop();
                }
            }
            Spec::App { data, .. } | Spec::Unknown { data, .. } => data.extend_from_slice(&[0x51; 8]),
            Spec::Fb { fci, sender, .. } => {
                grow_fci(fci);
                *sender ^= 0x5151_5151;
            }
            Spec::Third { payload, .. } => payload.extend_from_slice(&[0x51; 8]),
            Spec::Compound { members } => {
                for m in members.iter_mut() {
                    *m = m.sibling();
                }
            }
            Spec::Pb(i) => *i = Box::new(i.sibling()),
            Spec::ChunkOnly(c) => c.items.push(Item { ty: 2, prefix: vec![], value: "bystander".into() }),
            Spec::ItemOnly(i) => i.value.push_str("bystander"),
            Spec::FciOnly(f) => grow_fci(f),
        }
        s
    }

    /// A sibling of exactly the same shape (the same number of elements of every kind, the same
    /// lengths) with different values: what a state keyed by counts or sizes cannot tell apart.
    pub fn sibling_same_shape(&self) -> Spec {
        let mut s = self.clone();
        fn fci(f: &mut Fci) {
            match f {
                Fci::Nack { seqs } => seqs.iter_mut().for_each(|q| *q = q.wrapping_mul(3).wrapping_add(1000)),
                Fci::Fir { entries } => entries.iter_mut().for_each(|e| *e = (e.0 ^ 0x0101_0101, e.1.wrapping_add(1))),
                Fci::Sli { entries } => entries.iter_mut().for_each(|e| *e = (e.0.wrapping_add(1) & 0x1fff, e.1, e.2 ^ 1)),
                Fci::Rpsi { bits, .. } => bits.iter_mut().for_each(|b| *b = !*b),
                Fci::Pli => {}
            }
        }
        fn rbs(blocks: &mut [Rb]) {
            for b in blocks {
                b.ssrc ^= 0x0f0f_0f0f;
                b.jitter = b.jitter.wrapping_add(1);
                b.fraction ^= 0x55;
            }
        }
        fn items(its: &mut [Item]) {
            for i in its {
                i.value = i.value.chars().map(|c| if c.is_ascii_lowercase() { c.to_ascii_uppercase() } else if c.is_ascii_uppercase() { c.to_ascii_lowercase() } else if c == '0' { '1' } else { c }).collect();
                i.prefix.iter_mut().for_each(|b| *b ^= 1);
            }
        }
        match &mut s {
            Spec::Sr { ssrc, blocks, rtp, .. } => {
                *ssrc ^= 1;
                *rtp = rtp.wrapping_add(1);
                rbs(blocks);
            }
            Spec::Rr { ssrc, blocks, .. } => {
                *ssrc ^= 1;
                rbs(blocks);
            }
            Spec::Sdes { chunks, .. } => {
                for c in chunks {
                    c.ssrc = (c.ssrc ^ 0x10) | 0x0100_0000;
                    items(&mut c.items);
                }
            }
            Spec::Bye { sources, .. } => sources.iter_mut().for_each(|x| *x ^= 0x0f0f_0f0f),
            Spec::App { ssrc, data, .. } => {
                *ssrc ^= 1;
                data.iter_mut().for_each(|b| *b = !*b);
            }
            Spec::Unknown { data, .. } => data.iter_mut().for_each(|b| *b = !*b),
            Spec::Fb { fci: f, sender, media, .. } => {
                fci(f);
                *sender ^= 1;
                *media ^= 1;
            }
            Spec::Third { ssrc, payload, .. } => {
                *ssrc ^= 1;
                payload.iter_mut().for_each(|b| *b = !*b);
            }
            Spec::Compound { members } => {
                for m in members.iter_mut() {
                    *m = m.sibling_same_shape();
                }
            }
            Spec::Pb(i) => *i = Box::new(i.sibling_same_shape()),
            Spec::ChunkOnly(c) => {
                c.ssrc ^= 0x10;
                items(&mut c.items);
            }
            Spec::ItemOnly(i) => items(std::slice::from_mut(i)),
            Spec::FciOnly(f) => fci(f),
        }
        s
    }

    /// Number of nodes (used to bound generated sizes and to order shrink candidates).
    pub fn weight(&self) -> usize {
        match self {
            Spec::Sr { blocks, .. } | Spec::Rr { blocks, .. } => 1 + blocks.len(),
            Spec::Sdes { chunks, .. } => 1 + chunks.iter().map(|c| 1 + c.items.iter().map(|i| 1 + i.value.len() + i.prefix.len()).sum::<usize>()).sum::<usize>(),
            Spec::Bye { sources, reason, .. } => 1 + sources.len() + reason.len(),
            Spec::App { data, name, .. } => 1 + data.len() + name.len(),
            Spec::Unknown { data, .. } => 1 + data.len(),
            Spec::Third { payload, .. } => 1 + payload.len(),
            Spec::Fb { fci, .. } => 1 + fci_weight(fci),
            Spec::Compound { members } => 1 + members.iter().map(|m| m.weight()).sum::<usize>(),
            Spec::Pb(i) => 1 + i.weight(),
            Spec::ChunkOnly(c) => 1 + c.items.iter().map(|i| 1 + i.value.len() + i.prefix.len()).sum::<usize>(),
            Spec::ItemOnly(i) => 1 + i.value.len() + i.prefix.len(),
            Spec::FciOnly(f) => 1 + fci_weight(f),
        }
    }
}

fn fci_weight(f: &Fci) -> usize {
    match f {
        Fci::Nack { seqs } => seqs.len(),
        Fci::Fir { entries } => entries.len(),
        Fci::Sli { entries } => entries.len(),
        Fci::Rpsi { bits, .. } => bits.len(),
        Fci::Pli => 0,
    }
}

// ---------------------------------------------------------------------------------------
// JSON
// ---------------------------------------------------------------------------------------

fn rb_json(r: &Rb) -> J {
    J::obj()
        .set("ssrc", r.ssrc)
        .set("fraction", r.fraction)
        .set("cum_lost", r.cum_lost)
        .set("ext_seq", r.ext_seq)
        .set("jitter", r.jitter)
        .set("lsr", r.lsr)
        .set("dlsr", r.dlsr)
}
fn rb_from(j: &J) -> Result<Rb, String> {
    Ok(Rb {
        ssrc: j.u64_of("ssrc")? as u32,
        fraction: j.u64_of("fraction")? as u8,
        cum_lost: j.u64_of("cum_lost")? as u32,
        ext_seq: j.u64_of("ext_seq")? as u32,
        jitter: j.u64_of("jitter")? as u32,
        lsr: j.u64_of("lsr")? as u32,
        dlsr: j.u64_of("dlsr")? as u32,
    })
}
pub fn item_json(i: &Item) -> J {
    J::obj().set("type", i.ty).set("prefix", hex(&i.prefix)).set("value", i.value.clone())
}
pub fn item_from(j: &J) -> Result<Item, String> {
    Ok(Item { ty: j.u64_of("type")? as u8, prefix: unhex(j.str_of("prefix")?)?, value: j.str_of("value")?.to_string() })
}
pub fn chunk_json(c: &Chunk) -> J {
    J::obj().set("ssrc", c.ssrc).set("items", J::Arr(c.items.iter().map(item_json).collect()))
}
pub fn chunk_from(j: &J) -> Result<Chunk, String> {
    Ok(Chunk { ssrc: j.u64_of("ssrc")? as u32, items: j.arr_of("items")?.iter().map(item_from).collect::<Result<_, _>>()? })
}
pub fn fci_json(f: &Fci) -> J {
    match f {
        Fci::Nack { seqs } => J::obj().set("t", "nack").set("seqs", seqs.clone()),
        Fci::Fir { entries } => J::obj().set("t", "fir").set(
            "entries",
            J::Arr(entries.iter().map(|(s, q)| J::Arr(vec![(*s).into(), (*q).into()])).collect()),
        ),
        Fci::Sli { entries } => J::obj().set("t", "sli").set(
            "entries",
            J::Arr(entries.iter().map(|(a, b, c)| J::Arr(vec![(*a).into(), (*b).into(), (*c).into()])).collect()),
        ),
        Fci::Rpsi { pt, bits, overrun } => J::obj().set("t", "rpsi").set("pt", *pt).set("bits", hex(bits)).set("overrun", *overrun),
        Fci::Pli => J::obj().set("t", "pli"),
    }
}
pub fn fci_from(j: &J) -> Result<Fci, String> {
    let tuple = |v: &J, n: usize| -> Result<Vec<u64>, String> {
        let a = v.as_arr().ok_or("tuple expected")?;
        if a.len() != n {
            return Err("tuple arity".into());
        }
        a.iter().map(|x| x.as_u64().ok_or_else(|| "int expected".to_string())).collect()
    };
    Ok(match j.str_of("t")? {
        "nack" => Fci::Nack { seqs: j.arr_of("seqs")?.iter().map(|v| v.as_u64().map(|x| x as u16).ok_or("int")).collect::<Result<_, _>>()? },
        "fir" => Fci::Fir {
            entries: j.arr_of("entries")?.iter().map(|v| tuple(v, 2).map(|t| (t[0] as u32, t[1] as u8))).collect::<Result<_, _>>()?,
        },
        "sli" => Fci::Sli {
            entries: j.arr_of("entries")?.iter().map(|v| tuple(v, 3).map(|t| (t[0] as u16, t[1] as u16, t[2] as u8))).collect::<Result<_, _>>()?,
        },
        "rpsi" => Fci::Rpsi { pt: j.u64_of("pt")? as u8, bits: unhex(j.str_of("bits")?)?, overrun: j.u64_of("overrun")? as u8 },
        "pli" => Fci::Pli,
        o => return Err(format!("unknown fci '{o}'")),
    })
}

impl Spec {
    pub fn to_json(&self) -> J {
        let blocks = |b: &Vec<Rb>| J::Arr(b.iter().map(rb_json).collect());
        match self {
            Spec::Sr { ssrc, ntp, rtp, pc, oc, blocks: b, padding } => J::obj()
                .set("t", "sr")
                .set("ssrc", *ssrc)
                .set("ntp", *ntp)
                .set("rtp", *rtp)
                .set("pc", *pc)
                .set("oc", *oc)
                .set("blocks", blocks(b))
                .set("padding", *padding),
            Spec::Rr { ssrc, blocks: b, padding } => J::obj().set("t", "rr").set("ssrc", *ssrc).set("blocks", blocks(b)).set("padding", *padding),
            Spec::Sdes { chunks, padding } => J::obj().set("t", "sdes").set("chunks", J::Arr(chunks.iter().map(chunk_json).collect())).set("padding", *padding),
            Spec::Bye { sources, reason, padding } => J::obj().set("t", "bye").set("sources", sources.clone()).set("reason", reason.clone()).set("padding", *padding),
            Spec::App { ssrc, subtype, name, data, padding } => J::obj()
                .set("t", "app")
                .set("ssrc", *ssrc)
                .set("subtype", *subtype)
                .set("name", name.clone())
                .set("data", hex(data))
                .set("padding", *padding),
            Spec::Unknown { pt, count, data, padding } => J::obj().set("t", "unknown").set("pt", *pt).set("count", *count).set("data", hex(data)).set("padding", *padding),
            Spec::Fb { kind, sender, media, fci, padding } => J::obj()
                .set("t", "fb")
                .set("kind", if *kind == FbKind::Transport { "transport" } else { "payload" })
                .set("sender", *sender)
                .set("media", *media)
                .set("fci", fci_json(fci))
                .set("padding", *padding),
            Spec::Third { pt, count, ssrc, payload, padding } => J::obj()
                .set("t", "third")
                .set("pt", *pt)
                .set("count", *count)
                .set("ssrc", *ssrc)
                .set("payload", hex(payload))
                .set("padding", *padding),
            Spec::Compound { members } => J::obj().set("t", "compound").set("members", J::Arr(members.iter().map(|m| m.to_json()).collect())),
            Spec::Pb(i) => J::obj().set("t", "pb").set("inner", i.to_json()),
            Spec::ChunkOnly(c) => J::obj().set("t", "chunk").set("chunk", chunk_json(c)),
            Spec::ItemOnly(i) => J::obj().set("t", "item").set("item", item_json(i)),
            Spec::FciOnly(f) => J::obj().set("t", "fci").set("fci", fci_json(f)),
        }
    }

    pub fn from_json(j: &J) -> Result<Spec, String> {
        let blocks = |j: &J| -> Result<Vec<Rb>, String> { j.arr_of("blocks")?.iter().map(rb_from).collect() };
        let pad = |j: &J| -> Result<u8, String> { Ok(j.u64_of("padding")? as u8) };
        Ok(match j.str_of("t")? {
            "sr" => Spec::Sr {
                ssrc: j.u64_of("ssrc")? as u32,
                ntp: j.u64_of("ntp")?,
                rtp: j.u64_of("rtp")? as u32,
                pc: j.u64_of("pc")? as u32,
                oc: j.u64_of("oc")? as u32,
                blocks: blocks(j)?,
                padding: pad(j)?,
            },
            "rr" => Spec::Rr { ssrc: j.u64_of("ssrc")? as u32, blocks: blocks(j)?, padding: pad(j)? },
            "sdes" => Spec::Sdes { chunks: j.arr_of("chunks")?.iter().map(chunk_from).collect::<Result<_, _>>()?, padding: pad(j)? },
            "bye" => Spec::Bye {
                sources: j.arr_of("sources")?.iter().map(|v| v.as_u64().map(|x| x as u32).ok_or("int")).collect::<Result<_, _>>()?,
                reason: j.str_of("reason")?.to_string(),
                padding: pad(j)?,
            },
            "app" => Spec::App {
                ssrc: j.u64_of("ssrc")? as u32,
                subtype: j.u64_of("subtype")? as u8,
                name: j.str_of("name")?.to_string(),
                data: unhex(j.str_of("data")?)?,
                padding: pad(j)?,
            },
            "unknown" => Spec::Unknown { pt: j.u64_of("pt")? as u8, count: j.u64_of("count")? as u8, data: unhex(j.str_of("data")?)?, padding: pad(j)? },
            "fb" => Spec::Fb {
                kind: if j.str_of("kind")? == "transport" { FbKind::Transport } else { FbKind::Payload },
                sender: j.u64_of("sender")? as u32,
                media: j.u64_of("media")? as u32,
                fci: fci_from(j.obj_of("fci")?)?,
                padding: pad(j)?,
            },
            "third" => Spec::Third {
                pt: j.u64_of("pt")? as u8,
                count: j.u64_of("count")? as u8,
                ssrc: j.u64_of("ssrc")? as u32,
                payload: unhex(j.str_of("payload")?)?,
                padding: pad(j)?,
            },
            "compound" => Spec::Compound { members: j.arr_of("members")?.iter().map(Spec::from_json).collect::<Result<_, _>>()? },
            "pb" => Spec::Pb(Box::new(Spec::from_json(j.obj_of("inner")?)?)),
            "chunk" => Spec::ChunkOnly(chunk_from(j.obj_of("chunk")?)?),
            "item" => Spec::ItemOnly(item_from(j.obj_of("item")?)?),
            "fci" => Spec::FciOnly(fci_from(j.obj_of("fci")?)?),
            o => return Err(format!("unknown spec kind '{o}'")),
        })
    }
}

// ---------------------------------------------------------------------------------------
// Generation
// ---------------------------------------------------------------------------------------

/// Per-episode knobs of the workload generator (swarm style: drawn once per episode).
#[derive(Clone, Debug)]
pub struct GenCfg {
    /// probability (per mille) that a field takes an out-of-range / limit-crossing value
    pub invalid_pm: usize,
    /// probability (per mille) that a packet asks for padding
    pub padding_pm: usize,
    /// allow long strings / many list entries
    pub big: bool,
    /// include chunk-only / item-only builders
    pub parts: bool,
    /// include compounds / PacketBuilder wrappers
    pub wrappers: bool,
    /// include the harness-defined third-party writer
    pub third: bool,
    /// include (rarely) large configurations with varied content; off for the checks whose
    /// per-base fault enumeration is quadratic in the size of the base
    pub large: bool,
}

impl GenCfg {
    pub fn draw(r: &mut Rng) -> GenCfg {
        GenCfg {
            invalid_pm: *r.pick(&[0, 0, 20, 60, 150, 300]),
            padding_pm: *r.pick(&[0, 100, 300, 300, 600, 1000]),
            big: r.chance(1, 4),
            parts: r.chance(1, 2),
            wrappers: r.chance(2, 3),
            third: r.chance(1, 2),
            large: false,
        }
    }
    /// Only configurations the builders are documented to accept (for receiver-side traffic).
    pub fn valid_only(r: &mut Rng) -> GenCfg {
        GenCfg { invalid_pm: 0, padding_pm: *r.pick(&[0, 200, 500]), big: r.chance(1, 6), parts: false, wrappers: false, third: false, large: false }
    }
    pub fn to_json(&self) -> J {
        J::obj()
            .set("invalid_pm", self.invalid_pm)
            .set("padding_pm", self.padding_pm)
            .set("big", self.big)
            .set("parts", self.parts)
            .set("wrappers", self.wrappers)
            .set("third", self.third)
    }
}

fn gen_len(r: &mut Rng, cfg: &GenCfg, limit: usize) -> usize {
    // lengths biased to small values and to both sides of the limit
    let inv = r.below(1000) < cfg.invalid_pm;
    if inv {
        return limit + 1 + r.below(3);
    }
    match r.below(if cfg.big { 12 } else { 9 }) {
        0 => 0,
        1 => 1,
        2 => 2,
        3 => 3,
        4 => 4,
        5 => 5,
        6 => r.range(6, 12.min(limit)),
        7 => r.range(0, 24.min(limit)),
        8 => r.range(0, 40.min(limit)),
        9 => limit,
        10 => limit.saturating_sub(1 + r.below(3)),
        _ => r.range(0, limit),
    }
}

fn gen_count(r: &mut Rng, cfg: &GenCfg, limit: usize) -> usize {
    if cfg.big && cfg.invalid_pm > 0 && r.chance(1, 400) {
        // far beyond the limit, around the widths of narrow counters (the count modulo 256 or
        // 65536 is a legal count again)
        return *r.pick(&[255usize, 256, 257, 260, 287, 288, 300, 511, 512, 543]);
    }
    if r.below(1000) < cfg.invalid_pm {
        return limit + 1 + r.below(2);
    }
    match r.below(if cfg.big { 10 } else { 8 }) {
        0 | 1 => 0,
        2 | 3 => 1,
        4 => 2,
        5 => 3,
        6 => r.range(0, 5),
        7 => r.range(0, 8),
        8 => limit,
        _ => r.range(0, limit),
    }
}

pub fn gen_padding(r: &mut Rng, cfg: &GenCfg) -> u8 {
    if r.below(1000) >= cfg.padding_pm {
        return 0;
    }
    if r.below(1000) < cfg.invalid_pm {
        // not a multiple of 4
        return (r.u8() | 1).max(1);
    }
    match r.below(8) {
        0..=3 => 4,
        4 => 8,
        5 => 12,
        6 => 252,
        _ => (r.below(63) as u8 + 1) * 4,
    }
}

/// Valid UTF-8 of (about) `target` bytes from ASCII, 2-byte and 3-byte code points.
pub fn gen_string(r: &mut Rng, target: usize) -> String {
    let mut s = String::new();
    let mode = r.below(4);
    while s.len() < target {
        let left = target - s.len();
        let c = match (mode, left) {
            (0, _) | (_, 1) => (b'a' + r.below(26) as u8) as char,
            (1, _) | (_, 2) => {
                if r.chance(1, 2) {
                    char::from_u32(0xc0 + r.below(0x40) as u32).unwrap()
                } else {
                    (b' ' + r.below(95) as u8) as char
                }
            }
            _ => match r.below(3) {
                0 => (b'0' + r.below(10) as u8) as char,
                1 => char::from_u32(0x3b1 + r.below(24) as u32).unwrap(),
                _ => char::from_u32(0x4e00 + r.below(0x100) as u32).unwrap(),
            },
        };
        // rarely the NUL character: valid UTF-8, and the one a C-minded writer may treat as a terminator
        let c = if r.chance(1, 40) { '\0' } else { c };
        s.push(c);
    }
    s
}

fn gen_rb(r: &mut Rng, cfg: &GenCfg) -> Rb {
    let cum = if r.below(1000) < cfg.invalid_pm {
        0x0100_0000 | r.u32()
    } else {
        match r.below(4) {
            0 => 0,
            1 => 0x00ff_ffff,
            _ => r.u32() & 0x00ff_ffff,
        }
    };
    Rb { ssrc: r.u32_biased(), fraction: r.u8(), cum_lost: cum, ext_seq: r.u32_biased(), jitter: r.u32_biased(), lsr: r.u32_biased(), dlsr: r.u32_biased() }
}

pub fn gen_item(r: &mut Rng, cfg: &GenCfg) -> Item {
    let ty = match r.below(8) {
        0..=2 => 8u8,
        3 => 1,
        4 => r.range(1, 8) as u8,
        5 => r.u8(),
        6 => 2,
        _ => r.range(1, 7) as u8,
    };
    // rarely the END type itself: the builders take any type value
    let ty = if r.chance(1, 60) { 0 } else { ty };
    if ty == 8 {
        // PRIV: prefix + 1 + value <= 255
        let plen = match r.below(6) {
            0 => 0,
            1 => 1,
            2 => r.range(0, 5),
            3 => gen_len(r, cfg, 254),
            _ => r.range(0, 8),
        };
        let room = 254usize.saturating_sub(plen);
        let vlen = if r.below(1000) < cfg.invalid_pm { room + 1 + r.below(2) } else { gen_len(r, &GenCfg { invalid_pm: 0, ..cfg.clone() }, room) };
        Item { ty, prefix: r.bytes(plen), value: gen_string(r, vlen) }
    } else {
        let vlen = gen_len(r, cfg, 255);
        // a non-PRIV item may carry a (to be ignored) prefix
        let prefix = if r.chance(1, 10) {
            let n = r.range(1, 4);
            r.bytes(n)
        } else {
            vec![]
        };
        Item { ty, prefix, value: gen_string(r, vlen) }
    }
}

pub fn gen_chunk(r: &mut Rng, cfg: &GenCfg) -> Chunk {
    let n = match r.below(if cfg.big { 7 } else { 6 }) {
        0 => 0,
        1 | 2 => 1,
        3 => 2,
        4 => 3,
        5 => r.range(0, 6),
        _ => r.range(7, 40),
    };
    Chunk { ssrc: r.u32_biased(), items: (0..n).map(|_| gen_item(r, cfg)).collect() }
}

pub fn gen_fci(r: &mut Rng, cfg: &GenCfg) -> Fci {
    match r.below(5) {
        0 => {
            // NACK: dense runs, sparse, around the 17-window, wrapping
            let n = gen_count(r, cfg, 40).min(64);
            let base = match r.below(4) {
                0 => 0u16,
                1 => 65535 - r.below(20) as u16,
                _ => r.u16(),
            };
            let mut seqs = Vec::new();
            let mut cur = base;
            // one NACK in four is spread over the whole 16-bit space (order relations that are
            // only unambiguous inside half the space break down there)
            let wide = r.chance(1, 4);
            for _ in 0..n {
                seqs.push(cur);
                if wide {
                    cur = match r.below(3) {
                        0 => r.u16(),
                        1 => cur.wrapping_add(*r.pick(&[0x1000u16, 0x4000, 0x6000, 0x7fff, 0x8000, 0x8001, 0xc000])),
                        _ => cur.wrapping_add(r.range(1, 40) as u16),
                    };
                    continue;
                }
                cur = cur.wrapping_add(match r.below(6) {
                    0 | 1 => 1,
                    2 => 16,
                    3 => 17,
                    4 => 18,
                    _ => r.range(1, 40) as u16,
                });
            }
            Fci::Nack { seqs }
        }
        1 => {
            // very rarely (it costs tens of milliseconds) a map around the documented entry limit
            // (32765) or around the width of a 16-bit counter
            if cfg.big && cfg.invalid_pm > 0 && r.chance(1, 2_000) {
                let n = *r.pick(&[32_764usize, 32_765, 32_766, 32_767, 65_535, 65_536, 65_537, 65_536 + 32_765, 65_536 + 32_766, 131_072]);
                let base = r.u32();
                return Fci::Fir { entries: (0..n as u32).map(|i| (base.wrapping_add(i), i as u8)).collect() };
            }
            let n = gen_count(r, cfg, 12).min(16);
            Fci::Fir { entries: (0..n).map(|_| (r.u32_biased(), r.u8())).collect() }
        }
        2 => {
            let n = gen_count(r, cfg, 12).min(16);
            Fci::Sli {
                entries: (0..n)
                    .map(|_| {
                        let inv = r.below(1000) < cfg.invalid_pm;
                        if inv {
                            (r.u16(), r.u16(), r.u8())
                        } else {
                            // both ends of every field range, and anything between
                            let f13 = |r: &mut Rng| -> u16 { [0u16, 1, 0x1ffe, 0x1fff, 0x1000, 0x0fff][r.below(6)] };
                            let first = if r.chance(1, 4) { f13(r) } else { r.u16() & 0x1fff };
                            let number = if r.chance(1, 4) { f13(r) } else { r.u16() & 0x1fff };
                            let pic = if r.chance(1, 4) { [0u8, 1, 0x3e, 0x3f][r.below(4)] } else { r.u8() & 0x3f };
                            (first, number, pic)
                        }
                    })
                    .collect(),
            }
        }
        3 => {
            let len = match r.below(4) {
                0 => r.range(0, 9),
                1 => r.range(0, 4),
                _ => gen_len(r, &GenCfg { invalid_pm: 0, ..cfg.clone() }, 60),
            };
            let pt = if r.below(1000) < cfg.invalid_pm { 128 + r.below(128) as u8 } else { r.below(128) as u8 };
            let overrun = if r.below(1000) < cfg.invalid_pm {
                9 + r.below(4) as u8
            } else if len == 0 {
                if r.below(1000) < cfg.invalid_pm { 1 } else { 0 }
            } else {
                r.range(0, 8) as u8
            };
            Fci::Rpsi { pt, bits: r.bytes(len), overrun }
        }
        _ => Fci::Pli,
    }
}

/// Related neighbours: real senders emit lists whose successive elements are related
/// (sorted SSRCs, a macroblock run that continues the previous one, a repeated element),
/// and code that merges, sorts or de-duplicates list entries only misbehaves on those.
/// With probability 1/2 per packet, each list element after the first is, with probability
/// 1/3, rewritten as a relative of its predecessor.
fn relate_u32(r: &mut Rng, prev: u32) -> u32 {
    match r.below(5) {
        0 => prev,
        1 => prev.wrapping_add(1),
        2 => prev.wrapping_sub(1),
        3 => prev.wrapping_add(r.range(2, 300) as u32),
        _ => prev.wrapping_sub(r.range(2, 300) as u32),
    }
}

fn relate_fci(r: &mut Rng, f: &mut Fci) {
    match f {
        Fci::Fir { entries } => {
            for i in 1..entries.len() {
                if r.chance(1, 3) {
                    let (ps, pq) = entries[i - 1];
                    entries[i] = match r.below(4) {
                        0 => (ps, pq.wrapping_sub(1)),
                        1 => (ps, pq.wrapping_add(*r.pick(&[0u8, 1, 127, 128, 129]))),
                        _ => (relate_u32(r, ps), entries[i].1),
                    };
                }
            }
        }
        Fci::Sli { entries } => {
            for i in 1..entries.len() {
                if r.chance(1, 3) {
                    let (pf, pn, pp) = entries[i - 1];
                    let (_, n, p) = entries[i];
                    entries[i] = match r.below(6) {
                        0 => (pf, pn, pp),
                        1 | 2 => (pf.wrapping_add(pn) & 0x1fff, n, pp),
                        3 => (pf.wrapping_add(pn).wrapping_add(1) & 0x1fff, n, pp),
                        4 => (pf, n, pp),
                        _ => (pf.wrapping_add(pn) & 0x1fff, n, p),
                    };
                }
            }
        }
        Fci::Nack { seqs } => {
            // re-adding an earlier element, in particular the largest so far
            for i in 1..seqs.len() {
                if r.chance(1, 6) {
                    seqs[i] = match r.below(3) {
                        0 => seqs[i - 1],
                        1 => *seqs[..i].iter().max().unwrap(),
                        _ => seqs[r.below(i)],
                    };
                }
            }
        }
        _ => {}
    }
}

pub fn relate_neighbours(r: &mut Rng, s: &mut Spec) {
    if !r.chance(1, 2) {
        return;
    }
    match s {
        Spec::Sr { ssrc, blocks, .. } | Spec::Rr { ssrc, blocks, .. } => {
            // a report block about the reporter's own SSRC
            if !blocks.is_empty() && r.chance(1, 4) {
                let k = r.below(blocks.len());
                blocks[k].ssrc = *ssrc;
            }
            for i in 1..blocks.len() {
                if r.chance(1, 3) {
                    blocks[i].ssrc = relate_u32(r, blocks[i - 1].ssrc);
                }
            }
        }
        Spec::Bye { sources, .. } => {
            for i in 1..sources.len() {
                if r.chance(1, 3) {
                    sources[i] = relate_u32(r, sources[i - 1]);
                }
            }
        }
        Spec::Sdes { chunks, .. } => {
            for i in 1..chunks.len() {
                if r.chance(1, 3) {
                    chunks[i].ssrc = relate_u32(r, chunks[i - 1].ssrc);
                }
                if r.chance(1, 6) {
                    chunks[i].items = chunks[i - 1].items.clone();
                }
            }
            for c in chunks.iter_mut() {
                for i in 1..c.items.len() {
                    if r.chance(1, 3) {
                        if c.items[i].ty != 8 && c.items[i - 1].ty != 8 {
                            c.items[i].ty = c.items[i - 1].ty;
                        } else if r.chance(1, 2) {
                            c.items[i] = c.items[i - 1].clone();
                        }
                    }
                }
            }
        }
        Spec::Fb { fci, .. } => relate_fci(r, fci),
        _ => {}
    }
}

/// A large configuration with varied content: tens of thousands of elements or more than 64 KiB,
/// every element drawn separately.  (The length-field sweep reaches such sizes with constant
/// bodies only; an index, counter or accumulated offset kept in a narrow integer goes wrong after
/// many elements and shows in what follows them.)
pub fn gen_large(r: &mut Rng, cfg: &GenCfg) -> Spec {
    let padding = if r.chance(1, 3) { 4 * r.range(1, 3) as u8 } else { 0 };
    let small = GenCfg { invalid_pm: 0, big: false, ..cfg.clone() };
    match r.below(7) {
        0 => {
            // few chunks, thousands of items: offsets inside a chunk pass 64 KiB
            let nc = r.range(1, 3);
            let chunks = (0..nc)
                .map(|_| {
                    let n = r.range(2000, 9000);
                    Chunk {
                        ssrc: r.u32_biased(),
                        items: (0..n)
                            .map(|_| {
                                let ty = if r.chance(1, 12) { 8 } else { r.range(1, 7) as u8 };
                                let vl = r.below(9);
                                let pl = r.below(4);
                                let prefix = if ty == 8 { r.bytes(pl) } else { vec![] };
                                Item { ty, prefix, value: gen_string(r, vl) }
                            })
                            .collect(),
                    }
                })
                .collect();
            Spec::Sdes { chunks, padding }
        }
        1 => {
            // as many separate NACK entries as the sequence space allows, in a seeded subset
            let stride = r.range(17, 40);
            let start = r.u16();
            let n = r.range(1000, 65536 / stride);
            let mut seqs = Vec::with_capacity(2 * n);
            for i in 0..n {
                let base = start.wrapping_add((i * stride) as u16);
                seqs.push(base);
                if r.chance(1, 3) {
                    seqs.push(base.wrapping_add(r.range(1, 16) as u16));
                }
            }
            Spec::Fb { kind: FbKind::Transport, sender: r.u32_biased(), media: r.u32_biased(), fci: Fci::Nack { seqs }, padding }
        }
        2 => {
            let n = r.range(4000, 9000);
            let base = r.u32();
            let entries = (0..n).map(|i| (base.wrapping_add((i as u32).wrapping_mul(2_654_435_761)), r.u8())).collect();
            Spec::Fb { kind: FbKind::Payload, sender: r.u32_biased(), media: r.u32_biased(), fci: Fci::Fir { entries }, padding }
        }
        3 => {
            let n = r.range(8000, 17000);
            let entries = (0..n).map(|_| ((r.u16() & 0x1fff), (r.u16() & 0x1fff), r.u8() & 0x3f)).collect();
            Spec::Fb { kind: FbKind::Payload, sender: r.u32_biased(), media: r.u32_biased(), fci: Fci::Sli { entries }, padding }
        }
        4 => {
            let dl = 4 * r.range(16_000, 40_000);
            Spec::App { ssrc: r.u32_biased(), subtype: r.below(32) as u8, name: "LARG".into(), data: r.bytes(dl), padding }
        }
        5 => {
            let dl = 4 * r.range(16_000, 40_000);
            Spec::Unknown { pt: r.range(207, 255) as u8, count: r.below(32) as u8, data: r.bytes(dl), padding }
        }
        _ => {
            // a full report with every block drawn separately, behind a long reason-less BYE list
            Spec::Sr { ssrc: r.u32_biased(), ntp: r.next_u64(), rtp: r.u32(), pc: r.u32(), oc: r.u32(), blocks: (0..31).map(|_| gen_rb(r, &small)).collect(), padding }
        }
    }
}

/// One of the eight built-in packet kinds (no wrappers).
pub fn gen_packet(r: &mut Rng, cfg: &GenCfg) -> Spec {
    if cfg.large && cfg.big && r.chance(1, 1200) {
        return gen_large(r, cfg);
    }
    let mut s = gen_packet_raw(r, cfg);
    relate_neighbours(r, &mut s);
    s
}

/// A count far beyond the limit is the only thing wrong with its configuration: a narrow counter
/// that takes it for a legal count must not be rescued by an element or a padding that is refused
/// anyway.
fn far_beyond(n: usize, cfg: &GenCfg, padding: &mut u8) -> GenCfg {
    if n > 40 {
        if *padding % 4 != 0 {
            *padding = 0;
        }
        GenCfg { invalid_pm: 0, ..cfg.clone() }
    } else {
        cfg.clone()
    }
}

fn gen_blocks(r: &mut Rng, cfg: &GenCfg, padding: &mut u8) -> Vec<Rb> {
    let n = gen_count(r, cfg, 31);
    let ecfg = far_beyond(n, cfg, padding);
    (0..n).map(|_| gen_rb(r, &ecfg)).collect()
}

fn gen_packet_raw(r: &mut Rng, cfg: &GenCfg) -> Spec {
    let mut padding = gen_padding(r, cfg);
    match r.below(if cfg.third { 11 } else { 10 }) {
        0 => Spec::Sr {
            ssrc: r.u32_biased(),
            ntp: r.next_u64(),
            rtp: r.u32_biased(),
            pc: r.u32_biased(),
            oc: r.u32_biased(),
            blocks: gen_blocks(r, cfg, &mut padding),
            padding,
        },
        1 => Spec::Rr { ssrc: r.u32_biased(), blocks: gen_blocks(r, cfg, &mut padding), padding },
        2 => {
            let n = gen_count(r, cfg, 31);
            let ecfg = far_beyond(n, cfg, &mut padding);
            Spec::Sdes { chunks: (0..n).map(|_| gen_chunk(r, &ecfg)).collect(), padding }
        }
        3 => {
            let n = gen_count(r, cfg, 31);
            let rl = if r.chance(1, 3) { 0 } else { gen_len(r, cfg, 255) };
            Spec::Bye { sources: (0..n).map(|_| r.u32_biased()).collect(), reason: gen_string(r, rl), padding }
        }
        4 => {
            let name = if r.below(1000) < cfg.invalid_pm {
                if r.chance(1, 2) {
                    gen_string(r, 5)
                } else {
                    "n\u{e9}".to_string()
                }
            } else {
                let n = *r.pick(&[4usize, 4, 4, 3, 2, 1, 0]);
                (0..n).map(|_| (b'A' + r.below(26) as u8) as char).collect()
            };
            let dl = if r.below(1000) < cfg.invalid_pm { r.range(1, 7) | 1 } else { 4 * gen_len(r, &GenCfg { invalid_pm: 0, ..cfg.clone() }, 30) };
            let subtype = if r.below(1000) < cfg.invalid_pm { 32 + r.below(224) as u8 } else { r.below(32) as u8 };
            Spec::App { ssrc: r.u32_biased(), subtype, name, data: r.bytes(dl), padding }
        }
        5 => {
            let dl = if r.below(1000) < cfg.invalid_pm { r.range(1, 11) } else { 4 * gen_len(r, &GenCfg { invalid_pm: 0, ..cfg.clone() }, 30) };
            // very rarely a packet around the largest size the 16-bit length field can express
            let dl = if cfg.big && cfg.invalid_pm > 0 && r.chance(1, 3000) { *r.pick(&[262_128usize, 262_132, 262_136, 262_140, 262_144, 262_148]) } else { dl };
            let count = if r.below(1000) < cfg.invalid_pm { 32 + r.below(224) as u8 } else { r.below(32) as u8 };
            let pt = match r.below(4) {
                0 => r.range(192, 223) as u8,
                1 => r.range(207, 255) as u8,
                _ => r.u8(),
            };
            Spec::Unknown { pt, count, data: r.bytes(dl), padding }
        }
        6..=9 => {
            let fci = gen_fci(r, cfg);
            // right pairing most of the time, wrong pairing as an "invalid" configuration
            let natural = if matches!(fci, Fci::Nack { .. }) { FbKind::Transport } else { FbKind::Payload };
            let kind = if r.below(1000) < cfg.invalid_pm.max(30) {
                if natural == FbKind::Transport { FbKind::Payload } else { FbKind::Transport }
            } else {
                natural
            };
            Spec::Fb { kind, sender: r.u32_biased(), media: r.u32_biased(), fci, padding }
        }
        _ => {
            let dl = if r.below(1000) < cfg.invalid_pm { r.range(1, 11) } else { 4 * gen_len(r, &GenCfg { invalid_pm: 0, ..cfg.clone() }, 20) };
            let count = if r.below(1000) < cfg.invalid_pm { 32 + r.below(224) as u8 } else { r.below(32) as u8 };
            // an unaligned payload is an invalid configuration of the aligned flavour, and an accepted
            // one of the raw flavour (packet type 254)
            let pt = if dl % 4 != 0 && r.chance(1, 2) { 254 } else { r.range(207, 255) as u8 };
            Spec::Third { pt, count, ssrc: r.u32_biased(), payload: r.bytes(dl), padding }
        }
    }
}

/// Any builder configuration, including wrappers, compounds and part builders.
pub fn gen_spec(r: &mut Rng, cfg: &GenCfg, depth: usize) -> Spec {
    let roll = r.below(100);
    if cfg.parts && depth == 0 && roll < 8 {
        return if roll < 4 {
            let mut c = gen_chunk(r, cfg);
            for i in 1..c.items.len() {
                if r.chance(1, 4) {
                    c.items[i] = c.items[i - 1].clone();
                }
            }
            Spec::ChunkOnly(c)
        } else if roll < 6 {
            Spec::ItemOnly(gen_item(r, cfg))
        } else {
            let mut f = gen_fci(r, cfg);
            if r.chance(1, 2) {
                relate_fci(r, &mut f);
            }
            Spec::FciOnly(f)
        };
    }
    if cfg.wrappers && depth < 2 && roll >= 8 && roll < 26 {
        let n = match r.below(8) {
            0 => 0,
            1 | 2 => 1,
            3 | 4 => 2,
            5 => 3,
            _ => r.range(0, 6),
        };
        let mut members: Vec<Spec> = (0..n).map(|_| gen_spec(r, cfg, depth + 1)).collect();
        // most compounds keep padding for the last member only
        if r.chance(4, 5) {
            let last = members.len().saturating_sub(1);
            for (i, m) in members.iter_mut().enumerate() {
                if i != last {
                    strip_padding(m);
                }
            }
        }
        return Spec::Compound { members };
    }
    let p = gen_packet(r, cfg);
    if cfg.wrappers && roll >= 26 && roll < 40 && !matches!(p, Spec::Third { .. }) {
        return Spec::Pb(Box::new(p));
    }
    p
}

pub fn strip_padding(s: &mut Spec) {
    match s {
        Spec::Sr { padding, .. }
        | Spec::Rr { padding, .. }
        | Spec::Sdes { padding, .. }
        | Spec::Bye { padding, .. }
        | Spec::App { padding, .. }
        | Spec::Unknown { padding, .. }
        | Spec::Fb { padding, .. }
        | Spec::Third { padding, .. } => *padding = 0,
        Spec::Pb(i) => strip_padding(i),
        Spec::Compound { members } => members.iter_mut().for_each(strip_padding),
        _ => {}
    }
}

// ---------------------------------------------------------------------------------------
// Shrinking (used by the minimiser): strictly simpler variants of a spec
// ---------------------------------------------------------------------------------------

fn shrink_vec<T: Clone>(v: &[T]) -> Vec<Vec<T>> {
    let mut out = Vec::new();
    if v.is_empty() {
        return out;
    }
    out.push(Vec::new());
    if v.len() > 2 {
        out.push(v[..v.len() / 2].to_vec());
        out.push(v[v.len() / 2..].to_vec());
    }
    if v.len() <= 12 {
        for i in 0..v.len() {
            let mut w = v.to_vec();
            w.remove(i);
            out.push(w);
        }
    } else {
        out.push(v[..v.len() - 1].to_vec());
        out.push(v[1..].to_vec());
    }
    out
}

fn shrink_bytes(v: &[u8]) -> Vec<Vec<u8>> {
    let mut out = Vec::new();
    if v.is_empty() {
        return out;
    }
    out.push(Vec::new());
    if v.len() > 8 {
        out.push(v[..v.len() / 2].to_vec());
    }
    if v.len() > 4 {
        out.push(v[..v.len() - 4].to_vec());
    }
    out.push(v[..v.len() - 1].to_vec());
    if v.iter().any(|b| *b != 0) {
        out.push(vec![0; v.len()]);
    }
    out
}

fn shrink_string(s: &str) -> Vec<String> {
    let mut out = Vec::new();
    if s.is_empty() {
        return out;
    }
    out.push(String::new());
    let chars: Vec<char> = s.chars().collect();
    if chars.len() > 4 {
        out.push(chars[..chars.len() / 2].iter().collect());
    }
    out.push(chars[..chars.len() - 1].iter().collect());
    if chars.iter().any(|c| *c != 'a') {
        out.push(chars.iter().map(|_| 'a').collect());
    }
    out
}

fn shrink_u32(v: u32) -> Vec<u32> {
    if v == 0 {
        vec![]
    } else if v == 1 {
        vec![0]
    } else {
        vec![0, 1]
    }
}

fn shrink_padding(p: u8) -> Vec<u8> {
    let mut out = Vec::new();
    if p != 0 {
        out.push(0);
        if p > 4 {
            out.push(4);
        }
        if p % 4 != 0 {
            out.push(1);
        }
    }
    out.retain(|x| *x != p);
    out
}

fn shrink_item(i: &Item) -> Vec<Item> {
    let mut out = Vec::new();
    for v in shrink_string(&i.value) {
        out.push(Item { value: v, ..i.clone() });
    }
    for p in shrink_bytes(&i.prefix) {
        out.push(Item { prefix: p, ..i.clone() });
    }
    if i.ty != 1 && i.ty != 8 {
        out.push(Item { ty: 1, ..i.clone() });
    }
    out
}

fn shrink_chunk(c: &Chunk) -> Vec<Chunk> {
    let mut out = Vec::new();
    for items in shrink_vec(&c.items) {
        out.push(Chunk { ssrc: c.ssrc, items });
    }
    for (k, it) in c.items.iter().enumerate().take(if c.items.len() > 200 { 2 } else if c.items.len() > 24 { 8 } else { usize::MAX }) {
        for s in shrink_item(it) {
            let mut items = c.items.clone();
            items[k] = s;
            out.push(Chunk { ssrc: c.ssrc, items });
        }
    }
    for s in shrink_u32(c.ssrc) {
        out.push(Chunk { ssrc: s, items: c.items.clone() });
    }
    out
}

fn shrink_rb(r: &Rb) -> Vec<Rb> {
    let z = Rb::default();
    if *r == z {
        return vec![];
    }
    let mut out = vec![z];
    macro_rules! f {
        ($f:ident) => {
            if r.$f != 0 {
                let mut x = r.clone();
                x.$f = 0;
                out.push(x);
            }
        };
    }
    f!(ssrc);
    f!(fraction);
    f!(cum_lost);
    f!(ext_seq);
    f!(jitter);
    f!(lsr);
    f!(dlsr);
    out
}

fn shrink_fci(f: &Fci) -> Vec<Fci> {
    let mut out = Vec::new();
    match f {
        Fci::Nack { seqs } => {
            for s in shrink_vec(seqs) {
                out.push(Fci::Nack { seqs: s });
            }
        }
        Fci::Fir { entries } => {
            for s in shrink_vec(entries) {
                out.push(Fci::Fir { entries: s });
            }
        }
        Fci::Sli { entries } => {
            for s in shrink_vec(entries) {
                out.push(Fci::Sli { entries: s });
            }
        }
        Fci::Rpsi { pt, bits, overrun } => {
            for b in shrink_bytes(bits) {
                out.push(Fci::Rpsi { pt: *pt, bits: b, overrun: *overrun });
            }
            if *overrun != 0 {
                out.push(Fci::Rpsi { pt: *pt, bits: bits.clone(), overrun: 0 });
            }
            if *pt != 0 {
                out.push(Fci::Rpsi { pt: 0, bits: bits.clone(), overrun: *overrun });
            }
        }
        Fci::Pli => {}
    }
    out
}

impl Spec {
    /// Candidate simplifications, most aggressive first.
    pub fn shrinks(&self) -> Vec<Spec> {
        let mut out = Vec::new();
        // per-element candidates each carry a copy of the whole list: for a list of thousands of
        // elements only the halving / dropping candidates are offered until it has become small
        let per_element = match self.weight() {
            w if w > 2000 => 2,
            w if w > 64 => 16,
            _ => usize::MAX,
        };
        match self {
            Spec::Sr { ssrc, ntp, rtp, pc, oc, blocks, padding } => {
                let mk = |ssrc: u32, ntp: u64, rtp: u32, pc: u32, oc: u32, blocks: Vec<Rb>, padding: u8| Spec::Sr { ssrc, ntp, rtp, pc, oc, blocks, padding };
                for b in shrink_vec(blocks) {
                    out.push(mk(*ssrc, *ntp, *rtp, *pc, *oc, b, *padding));
                }
                for p in shrink_padding(*padding) {
                    out.push(mk(*ssrc, *ntp, *rtp, *pc, *oc, blocks.clone(), p));
                }
                if (*ssrc, *ntp, *rtp, *pc, *oc) != (0, 0, 0, 0, 0) {
                    out.push(mk(0, 0, 0, 0, 0, blocks.clone(), *padding));
                }
                for (k, b) in blocks.iter().enumerate().take(per_element) {
                    for s in shrink_rb(b) {
                        let mut bl = blocks.clone();
                        bl[k] = s;
                        out.push(mk(*ssrc, *ntp, *rtp, *pc, *oc, bl, *padding));
                    }
                }
            }
            Spec::Rr { ssrc, blocks, padding } => {
                for b in shrink_vec(blocks) {
                    out.push(Spec::Rr { ssrc: *ssrc, blocks: b, padding: *padding });
                }
                for p in shrink_padding(*padding) {
                    out.push(Spec::Rr { ssrc: *ssrc, blocks: blocks.clone(), padding: p });
                }
                for s in shrink_u32(*ssrc) {
                    out.push(Spec::Rr { ssrc: s, blocks: blocks.clone(), padding: *padding });
                }
                for (k, b) in blocks.iter().enumerate().take(per_element) {
                    for s in shrink_rb(b) {
                        let mut bl = blocks.clone();
                        bl[k] = s;
                        out.push(Spec::Rr { ssrc: *ssrc, blocks: bl, padding: *padding });
                    }
                }
            }
            Spec::Sdes { chunks, padding } => {
                for c in shrink_vec(chunks) {
                    out.push(Spec::Sdes { chunks: c, padding: *padding });
                }
                for p in shrink_padding(*padding) {
                    out.push(Spec::Sdes { chunks: chunks.clone(), padding: p });
                }
                for (k, c) in chunks.iter().enumerate().take(per_element) {
                    for s in shrink_chunk(c) {
                        let mut cs = chunks.clone();
                        cs[k] = s;
                        out.push(Spec::Sdes { chunks: cs, padding: *padding });
                    }
                }
            }
            Spec::Bye { sources, reason, padding } => {
                for s in shrink_vec(sources) {
                    out.push(Spec::Bye { sources: s, reason: reason.clone(), padding: *padding });
                }
                for r in shrink_string(reason) {
                    out.push(Spec::Bye { sources: sources.clone(), reason: r, padding: *padding });
                }
                for p in shrink_padding(*padding) {
                    out.push(Spec::Bye { sources: sources.clone(), reason: reason.clone(), padding: p });
                }
                if sources.iter().any(|s| *s != 0) {
                    out.push(Spec::Bye { sources: vec![0; sources.len()], reason: reason.clone(), padding: *padding });
                }
            }
            Spec::App { ssrc, subtype, name, data, padding } => {
                for d in shrink_bytes(data) {
                    out.push(Spec::App { ssrc: *ssrc, subtype: *subtype, name: name.clone(), data: d, padding: *padding });
                }
                for p in shrink_padding(*padding) {
                    out.push(Spec::App { ssrc: *ssrc, subtype: *subtype, name: name.clone(), data: data.clone(), padding: p });
                }
                for n in shrink_string(name) {
                    out.push(Spec::App { ssrc: *ssrc, subtype: *subtype, name: n, data: data.clone(), padding: *padding });
                }
                if *ssrc != 0 || *subtype != 0 {
                    out.push(Spec::App { ssrc: 0, subtype: 0, name: name.clone(), data: data.clone(), padding: *padding });
                }
            }
            Spec::Unknown { pt, count, data, padding } => {
                for d in shrink_bytes(data) {
                    out.push(Spec::Unknown { pt: *pt, count: *count, data: d, padding: *padding });
                }
                for p in shrink_padding(*padding) {
                    out.push(Spec::Unknown { pt: *pt, count: *count, data: data.clone(), padding: p });
                }
                if *count != 0 {
                    out.push(Spec::Unknown { pt: *pt, count: 0, data: data.clone(), padding: *padding });
                }
            }
            Spec::Third { pt, count, ssrc, payload, padding } => {
                for d in shrink_bytes(payload) {
                    out.push(Spec::Third { pt: *pt, count: *count, ssrc: *ssrc, payload: d, padding: *padding });
                }
                for p in shrink_padding(*padding) {
                    out.push(Spec::Third { pt: *pt, count: *count, ssrc: *ssrc, payload: payload.clone(), padding: p });
                }
                if *count != 0 || *ssrc != 0 {
                    out.push(Spec::Third { pt: *pt, count: 0, ssrc: 0, payload: payload.clone(), padding: *padding });
                }
            }
            Spec::Fb { kind, sender, media, fci, padding } => {
                for f in shrink_fci(fci) {
                    out.push(Spec::Fb { kind: *kind, sender: *sender, media: *media, fci: f, padding: *padding });
                }
                for p in shrink_padding(*padding) {
                    out.push(Spec::Fb { kind: *kind, sender: *sender, media: *media, fci: fci.clone(), padding: p });
                }
                if *sender != 0 || *media != 0 {
                    out.push(Spec::Fb { kind: *kind, sender: 0, media: 0, fci: fci.clone(), padding: *padding });
                }
            }
            Spec::Compound { members } => {
                for m in members.iter() {
                    out.push(m.clone());
                }
                for m in shrink_vec(members) {
                    out.push(Spec::Compound { members: m });
                }
                for (k, m) in members.iter().enumerate().take(per_element) {
                    for s in m.shrinks() {
                        let mut ms = members.clone();
                        ms[k] = s;
                        out.push(Spec::Compound { members: ms });
                    }
                }
            }
            Spec::Pb(i) => {
                out.push((**i).clone());
                for s in i.shrinks() {
                    if !matches!(s, Spec::Compound { .. } | Spec::Third { .. } | Spec::ChunkOnly(_) | Spec::ItemOnly(_) | Spec::FciOnly(_) | Spec::Pb(_)) {
                        out.push(Spec::Pb(Box::new(s)));
                    }
                }
            }
            Spec::ChunkOnly(c) => {
                for s in shrink_chunk(c) {
                    out.push(Spec::ChunkOnly(s));
                }
            }
            Spec::ItemOnly(i) => {
                for s in shrink_item(i) {
                    out.push(Spec::ItemOnly(s));
                }
            }
            Spec::FciOnly(f) => {
                for s in shrink_fci(f) {
                    out.push(Spec::FciOnly(s));
                }
            }
        }
        out
    }
}
