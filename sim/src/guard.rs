//! Panic capture: every call into rtcp-types runs under `guarded`, with a process-wide
//! panic hook that records message and location instead of printing.

use std::cell::RefCell;
use std::panic::{self, AssertUnwindSafe};
use std::sync::Once;

thread_local! {
    static LAST: RefCell<Option<(String, String)>> = RefCell::new(None);
}

static HOOK: Once = Once::new();

pub fn install_hook() {
    HOOK.call_once(|| {
        panic::set_hook(Box::new(|info| {
            let msg = if let Some(s) = info.payload().downcast_ref::<&str>() {
                s.to_string()
            } else if let Some(s) = info.payload().downcast_ref::<String>() {
                s.clone()
            } else {
                "<non-string panic payload>".to_string()
            };
            let loc = info.location().map(|l| format!("{}:{}", l.file(), l.line())).unwrap_or_default();
            LAST.with(|l| *l.borrow_mut() = Some((msg, loc)));
        }));
    });
}

#[derive(Clone, Debug)]
pub struct PanicInfo {
    pub msg: String,
    pub loc: String,
}

impl PanicInfo {
    /// Location relative to the crate (stable across checkouts).
    pub fn short_loc(&self) -> String {
        match self.loc.find("src/") {
            Some(i) => self.loc[i..].to_string(),
            None => self.loc.clone(),
        }
    }
}

pub fn guarded<R>(f: impl FnOnce() -> R) -> Result<R, PanicInfo> {
    install_hook();
    // a call boundary of the observed session: the other party on this thread may move first
    crate::ambient::tick();
    match panic::catch_unwind(AssertUnwindSafe(f)) {
        Ok(r) => Ok(r),
        Err(_) => {
            let (msg, loc) = LAST.with(|l| l.borrow_mut().take()).unwrap_or_default();
            Err(PanicInfo { msg, loc })
        }
    }
}
