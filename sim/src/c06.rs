//! C06 — the size a writer announces is exactly the size it writes.
//!
//! The environment-chosen dimension is the capacity the arena still has when the packet is
//! written: every builder configuration is crossed with every buffer length 0..=n+8.

use crate::engine::*;
use crate::guard::guarded;
use crate::json::J;
use crate::prng::{fnv1a, Rng, FNV_INIT};
use crate::realise::{plan_canonical, plan_with, realise_probed, Concrete, Plan};
use crate::tape::Tape;
use crate::spec::*;
use rtcp_types::RtcpWriteError;

pub struct C06;

#[derive(Clone, Debug, PartialEq, Eq)]
pub enum WRes {
    Ok(usize),
    Err(RtcpWriteErrorS),
    Panic(String),
}

/// RtcpWriteError rendered (it has no Clone); OutputTooSmall keeps its number.
#[derive(Clone, Debug, PartialEq, Eq)]
pub enum RtcpWriteErrorS {
    TooSmall(usize),
    Other(String),
}

pub fn conv(e: RtcpWriteError) -> RtcpWriteErrorS {
    match e {
        RtcpWriteError::OutputTooSmall(n) => RtcpWriteErrorS::TooSmall(n),
        o => RtcpWriteErrorS::Other(format!("{o:?}")),
    }
}

pub fn guarded_write(c: &Concrete<'_>, buf: &mut [u8]) -> WRes {
    match guarded(|| c.write(buf)) {
        Ok(Ok(n)) => WRes::Ok(n),
        Ok(Err(e)) => WRes::Err(conv(e)),
        Err(p) => WRes::Panic(format!("{} at {}", p.msg, p.short_loc())),
    }
}

pub fn guarded_size(c: &Concrete<'_>) -> Option<WRes> {
    match guarded(|| c.size()) {
        Ok(None) => None,
        Ok(Some(Ok(n))) => Some(WRes::Ok(n)),
        Ok(Some(Err(e))) => Some(WRes::Err(conv(e))),
        Err(p) => Some(WRes::Panic(format!("{} at {}", p.msg, p.short_loc()))),
    }
}

/// While `spec` is under observation in an episode that has a second party (ambient.rs), that
/// party works on configurations of the same builder type: one of exactly the same shape (equal
/// counts and lengths, other values) and one that is larger.  It measures them, writes them
/// through `write_into`, and writes them unchecked into exactly what they announced.
pub fn lend_siblings(spec: &Spec, hash_key: u64) {
    if !crate::ambient::armed() || spec.weight() > 4096 {
        return;
    }
    let plans = [plan_canonical(&spec.sibling_same_shape()), plan_canonical(&spec.sibling())];
    let mut scratch = vec![0u8; 1024];
    crate::ambient::lend(Box::new(move |sel: u64| {
        let plan = &plans[(sel & 1) as usize];
        crate::realise::realise(plan, hash_key ^ 0x5151, |c| {
            let _ = guarded(|| match (sel >> 1) % 4 {
                0 => {
                    let _ = c.size();
                }
                1 => {
                    let _ = c.write(&mut scratch);
                }
                2 => {
                    if let Some(Ok(n)) = c.size() {
                        if n <= scratch.len() {
                            let _ = c.write_unchecked(&mut scratch[..n]);
                        }
                    }
                }
                _ => {
                    let _ = c.size();
                    let _ = c.get_padding();
                    let _ = c.write(&mut scratch[..8]);
                }
            });
        });
    }));
}

/// Capacities to sweep for an announced size `n`.
pub fn capacities(n: usize, r: &mut Rng, dense_limit: usize) -> Vec<usize> {
    if n <= dense_limit {
        (0..=n + 8).collect()
    } else {
        let mut v: Vec<usize> = (0..=64).collect();
        for _ in 0..64 {
            v.push(r.range(65, n - 65));
        }
        v.extend(n - 64..=n + 8);
        v.sort_unstable();
        v.dedup();
        v
    }
}

/// The property for one (builder, capacity): Some((what, detail)) when violated.
/// `size` is the announced result (None for part builders, where the value carried by
/// OutputTooSmall at capacity 0 takes its place).
fn judge_cap(c: &Concrete<'_>, whole: bool, size: &Option<WRes>, n_ref: &mut Option<WRes>, cap: usize, buf: &mut [u8]) -> (WRes, Option<(String, String)>) {
    let r = guarded_write(c, &mut buf[..cap]);
    // establish the reference for part builders from the first (capacity 0) write
    let reference: WRes = match size {
        Some(s) => s.clone(),
        None => {
            if n_ref.is_none() {
                *n_ref = Some(match &r {
                    WRes::Err(RtcpWriteErrorS::TooSmall(n)) => WRes::Ok(*n),
                    WRes::Ok(n) => WRes::Ok(*n),
                    other => other.clone(),
                });
            }
            n_ref.clone().unwrap()
        }
    };
    let v = match &reference {
        WRes::Panic(m) => Some(("size_calculation_panicked".to_string(), format!("calculate_size unwound: {m}"))),
        WRes::Ok(n) => {
            let n = *n;
            if whole && n % 4 != 0 {
                Some(("size_not_multiple_of_4".to_string(), format!("announced size {n} is not a multiple of 4")))
            } else if cap >= n {
                match &r {
                    WRes::Ok(w) if *w == n => None,
                    WRes::Ok(w) => Some(("wrote_other_than_announced".to_string(), format!("announced {n}, write_into(capacity {cap}) returned Ok({w})"))),
                    WRes::Err(e) => Some(("failed_with_sufficient_buffer".to_string(), format!("announced {n}, write_into(capacity {cap}) returned Err({e:?})"))),
                    WRes::Panic(m) => Some(("panicked_with_sufficient_buffer".to_string(), format!("announced {n}, write_into(capacity {cap}) unwound: {m}"))),
                }
            } else {
                match &r {
                    WRes::Err(RtcpWriteErrorS::TooSmall(m)) if *m == n => None,
                    WRes::Err(RtcpWriteErrorS::TooSmall(m)) => Some(("too_small_carries_other_size".to_string(), format!("announced {n}, capacity {cap}: OutputTooSmall({m})"))),
                    other => Some(("short_buffer_not_reported".to_string(), format!("announced {n}, capacity {cap} < n: got {other:?} instead of OutputTooSmall({n})"))),
                }
            }
        }
        WRes::Err(e) => match &r {
            WRes::Err(e2) if e2 == e => None,
            other => Some(("invalid_config_error_differs".to_string(), format!("calculate_size failed with {e:?}, write_into(capacity {cap}) gave {other:?}"))),
        },
    };
    (r, v)
}

/// Marks a case whose failing step is the unchecked write into exactly the announced size.
const UNCHECKED_CAP: usize = usize::MAX >> 12;

/// Measure, then hand `write_into_unchecked` a buffer of exactly the announced size.
fn judge_unchecked(c: &Concrete<'_>, n: usize) -> Option<(String, String)> {
    // measured again: the two calls follow each other as they do inside `write_into`
    match guarded_size(c) {
        Some(WRes::Ok(m)) if m == n => {}
        Some(other) => return Some(("size_changes_between_queries".to_string(), format!("calculate_size announced {n}, asked again it gave {other:?}"))),
        None => return None,
    }
    let mut buf = vec![0x5au8; n];
    match guarded(|| c.write_unchecked(&mut buf)) {
        Ok(Some(w)) if w == n => None,
        Ok(Some(w)) => Some(("wrote_other_than_announced".to_string(), format!("announced {n}, write_into_unchecked(exactly {n} bytes) returned {w}"))),
        Ok(None) => None,
        Err(p) => Some(("panicked_with_sufficient_buffer".to_string(), format!("announced {n}, write_into_unchecked(exactly {n} bytes) unwound: {} at {}", p.msg, p.short_loc()))),
    }
}

fn case_json(spec: &Spec, cap: usize, hash_key: u64, probes: u64, tape: &[u32]) -> J {
    J::obj().set("spec", spec.to_json()).set("cap", cap).set("hash_key", hash_key).set("probes", probes).set("tape", tape.to_vec())
}

/// The call history that builds the configuration: canonical for an empty tape, otherwise the
/// tape-driven one (setter order, stale calls, owned / borrowed forms) — every way of reaching a
/// configuration is a builder configuration in the sense of the statement.
pub fn plan_for(spec: &Spec, tape: &[u32]) -> Plan {
    if tape.is_empty() {
        plan_canonical(spec)
    } else {
        plan_with(spec, &mut Tape::replaying(tape.to_vec()))
    }
}

pub fn case_tape(case: &J) -> Vec<u32> {
    case.arr_of("tape").map(|a| a.iter().filter_map(|v| v.as_u64().map(|x| x as u32)).collect()).unwrap_or_default()
}

fn res_code(r: &WRes) -> u64 {
    match r {
        WRes::Ok(_) => 0,
        WRes::Err(RtcpWriteErrorS::TooSmall(_)) => 1,
        WRes::Err(RtcpWriteErrorS::Other(s)) => 2 + fnv1a(FNV_INIT, s.split(|c: char| !c.is_alphanumeric()).next().unwrap_or("").as_bytes()) % 1000,
        WRes::Panic(_) => 9999,
    }
}

impl Check for C06 {
    fn id(&self) -> &'static str {
        "C06"
    }
    fn level(&self) -> &'static str {
        "fault_enumeration"
    }
    fn episodes(&self, tier: Tier) -> u64 {
        match tier {
            Tier::Quick => 8_000_000,
            Tier::Thorough => 400_000_000,
        }
    }
    fn same_class(&self, a: &str, b: &str) -> bool {
        a.split('@').next() == b.split('@').next()
    }

    fn run_episode(&self, seed: u64, idx: u64, ctx: &mut Ctx<'_>, out: &mut Vec<Violation>) {
        let mut wl = Rng::derive(seed, "workload");
        let mut ar = Rng::derive(seed, "arena");
        let hash_key = Rng::derive(seed, "hash").next_u64();
        let gcfg = GenCfg { large: true, ..GenCfg::draw(&mut wl) };
        let spec = gen_spec(&mut wl, &gcfg, 0);
        // a quarter of the configurations are reached through a seeded call history instead of the
        // canonical one
        let tape: Vec<u32> = if ar.chance(1, 4) { (0..96).map(|_| ar.u32()).collect() } else { Vec::new() };
        let plan = plan_for(&spec, &tape);
        let whole = spec.is_whole_packet();
        let kind = spec.kind_name();
        let kh = fnv1a(FNV_INIT, kind.as_bytes());
        // in a quarter of the episodes the unfinished builders are asked for their size (and
        // written into a scratch buffer) between configuration calls: the announced size must be
        // that of the finished configuration, whatever was asked before
        let probes = if ar.chance(1, 4) { ar.next_u64() | 1 } else { 0 };
        if probes != 0 {
            ctx.stats.fault("observation-probes", 1);
        }
        if !tape.is_empty() {
            ctx.stats.fault("call-history", 1);
        }
        lend_siblings(&spec, hash_key);
        let found = realise_probed(&plan, hash_key, probes, |c| {
            let size = guarded_size(c);
            let n_guess = match &size {
                Some(WRes::Ok(n)) => *n,
                _ => 24,
            };
            if n_guess > 1 << 20 {
                return None;
            }
            let caps = if size.is_none() { (0..=300usize).collect() } else { capacities(n_guess, &mut ar, 512) };
            let max = caps.last().copied().unwrap_or(0);
            let prefill = ar.bytes(max);
            let mut buf = prefill.clone();
            let mut n_ref = None;
            let mut first: Option<(usize, String, String)> = None;
            for cap in caps {
                let (r, v) = judge_cap(c, whole, &size, &mut n_ref, cap, &mut buf);
                ctx.stats.evaluations += 1;
                ctx.stats.events += 1;
                ctx.stats.fault("capacity", 1);
                // part builders: once n is known, stop a little after it
                if size.is_none() {
                    if let Some(WRes::Ok(n)) = &n_ref {
                        if cap > *n + 8 {
                            break;
                        }
                    } else if cap > 8 {
                        break;
                    }
                }
                let n_now = match (&size, &n_ref) {
                    (Some(WRes::Ok(n)), _) | (None, Some(WRes::Ok(n))) => Some(*n),
                    _ => None,
                };
                let rel = match n_now {
                    Some(n) if cap < n => 0u64,
                    Some(n) if cap == n => 1,
                    Some(_) => 2,
                    None => 3,
                };
                ctx.stats.trace_digest ^= fnv1a(seed ^ cap as u64, &res_code(&r).to_le_bytes());
                if rel != 2 || cap % 4 == 0 {
                    // non-trivial: the capacity fault bites (cap < n), is exact, or the config is rejected
                    ctx.stats.sig(&[kh, rel, res_code(&r), n_now.map(|n| (n as u64 + 3) / 4).unwrap_or(0), (cap as u64).min(n_now.unwrap_or(0) as u64 + 8) / 4]);
                }
                if matches!(r, WRes::Panic(_)) {
                    ctx.stats.count("writes_that_unwound", 1);
                }
                if let (None, Some((what, detail))) = (&first, v) {
                    first = Some((cap, what, detail));
                }
                buf[..cap].copy_from_slice(&prefill[..cap]);
            }
            // the unchecked writer handed exactly the announced size (what `write_into` does after
            // its checks, and what a caller who measured first may do itself): returns n, no unwind
            if first.is_none() {
                if let Some(WRes::Ok(n)) = &size {
                    if *n <= 1 << 16 {
                        ctx.stats.events += 1;
                        ctx.stats.count("unchecked_writes_into_exactly_n", 1);
                        if let Some(v) = judge_unchecked(c, *n) {
                            first = Some((UNCHECKED_CAP, v.0, v.1));
                        }
                    }
                }
            }
            match &size {
                Some(WRes::Ok(_)) => ctx.stats.count("configs_accepted", 1),
                Some(_) => ctx.stats.count("configs_rejected", 1),
                None => ctx.stats.count("part_builders", 1),
            }
            first
        });
        let skind = if matches!(spec, Spec::Compound { .. }) { "compound" } else if whole { "packet" } else { "part" };
        if ctx.stats.wants_sample(skind, idx) && spec.weight() < 60 {
            ctx.stats.sample(skind, idx, || J::obj().set("spec", spec.to_json()).set("capacities", "0..=n+8").set("hash_key", hash_key).set("probes", probes));
        }
        if let Some((cap, what, detail)) = found {
            out.push(Violation { class: format!("{what}@{kind}"), detail, episode: idx, case: case_json(&spec, cap, hash_key, probes, &tape), provenance: J::obj().set("swarm", gcfg.to_json()) });
        }
    }

    fn replay(&self, case: &J, log: Option<&mut Vec<String>>) -> Result<Option<(String, String)>, String> {
        let spec = Spec::from_json(case.obj_of("spec")?)?;
        let cap = case.usize_of("cap")?;
        let hash_key = case.u64_of("hash_key")?;
        let probes = case.u64_of("probes").unwrap_or(0);
        let plan = plan_for(&spec, &case_tape(case));
        let whole = spec.is_whole_packet();
        let kind = spec.kind_name();
        let mut lg = Vec::new();
        let v = realise_probed(&plan, hash_key, probes, |c| {
            let size = guarded_size(c);
            lg.push(format!("calculate_size() -> {size:?}"));
            if cap == UNCHECKED_CAP {
                return match &size {
                    Some(WRes::Ok(n)) if *n <= 1 << 16 => {
                        let v = judge_unchecked(c, *n);
                        lg.push(format!("calculate_size(); write_into_unchecked(exactly {n} bytes) -> {v:?}"));
                        v
                    }
                    _ => None,
                };
            }
            let mut n_ref = None;
            let mut buf = vec![0xa5u8; cap.max(8) + 8];
            if size.is_none() {
                let (r0, v0) = judge_cap(c, whole, &size, &mut n_ref, 0, &mut buf);
                lg.push(format!("write_into(capacity 0) -> {r0:?}"));
                if v0.is_some() {
                    return v0;
                }
            }
            let (r, v) = judge_cap(c, whole, &size, &mut n_ref, cap, &mut buf);
            lg.push(format!("write_into(capacity {cap}) -> {r:?}"));
            v
        });
        if let Some(l) = log {
            *l = lg;
        }
        Ok(v.map(|(what, d)| (format!("{what}@{kind}"), d)))
    }

    fn shrink(&self, case: &J) -> Vec<J> {
        let (Ok(specj), Ok(cap), Ok(key)) = (case.obj_of("spec"), case.usize_of("cap"), case.u64_of("hash_key")) else { return vec![] };
        let probes = case.u64_of("probes").unwrap_or(0);
        let tape = case_tape(case);
        let Ok(spec) = Spec::from_json(specj) else { return vec![] };
        let mut out = Vec::new();
        for s in spec.shrinks() {
            out.push(case_json(&s, cap, key, probes, &tape));
            // the interesting capacity moves with the size
            for c in [0usize, 4, 8, 12, 16, 20, 24, 28, 32] {
                if c != cap && s.weight() <= 64 && cap != UNCHECKED_CAP {
                    out.push(case_json(&s, c, key, probes, &tape));
                }
            }
        }
        for c in [0usize, cap / 2, cap.saturating_sub(4), cap.saturating_sub(1)] {
            if c != cap && cap != UNCHECKED_CAP {
                out.push(case_json(&spec, c, key, probes, &tape));
            }
        }
        if !tape.is_empty() {
            out.push(case_json(&spec, cap, key, probes, &[]));
            for t in crate::shrinkb::shrink_tape(&tape).into_iter().take(12) {
                if !t.is_empty() {
                    out.push(case_json(&spec, cap, key, probes, &t));
                }
            }
        }
        if probes != 0 {
            out.push(case_json(&spec, cap, key, 0, &tape));
            out.push(case_json(&spec, cap, key, u64::MAX, &tape));
        }
        if key != 0 {
            out.push(case_json(&spec, cap, 0, probes, &tape));
        }
        out
    }

    fn rule(&self) -> String {
        "Per episode one builder configuration of any builder type (SR, RR, SDES, BYE, APP, Unknown, transport/payload feedback x {NACK, FIR, SLI, RPSI, PLI} incl. wrong pairings, PacketBuilder wrappers, CompoundBuilder with 0-6 members and nesting, a third-party writer on utils::writer, SdesChunkBuilder / SdesItemBuilder), fields biased to both sides of every limit; realised with the real builders (in a quarter of the episodes with size queries / scratch writes on the unfinished builders between configuration calls); n = calculate_size(); then write_into on a seeded-prefilled buffer of EVERY capacity 0..=n+8 (n <= 512; otherwise 0..=64, n-64..=n+8 and 64 seeded capacities between). evaluations = write_into calls. Non-trivial = the capacity fault bites (cap < n), is exact (cap == n), the configuration is rejected, or slack at a word boundary; distinct = distinct (builder kind, capacity relation, result class, n in words, capacity in words).".into()
    }
    fn assumptions(&self) -> Vec<String> {
        vec![
            "exhaustive in capacity per configuration; configurations are sampled — most size mismatches already show in an exactly-sized buffer, so the configuration sampling does much of the work (DESIGN §13)".into(),
            "SdesChunkBuilder / SdesItemBuilder have no public calculate_size; n is the value carried by OutputTooSmall at capacity 0".into(),
            "FCI builders are exercised inside feedback builders only, as the statement lists them".into(),
        ]
    }
    fn components(&self) -> J {
        J::obj()
            .set("real", J::Arr(vec!["every rtcp-types builder: calculate_size, write_into, write_into_unchecked".into()]))
            .set("stub", J::Arr(vec!["output arena with swept capacity (S-buf)".into(), "third-party writer on utils::writer (harness-defined packet type)".into()]))
    }
    fn exhaustive_dimensions(&self) -> Vec<String> {
        vec!["capacity 0..=n+8 per configuration with n <= 512".into()]
    }
}
