//! C17 — writers define every byte they claim and touch nothing else.
//!
//! "Previous contents of the buffer" is state left behind by earlier activity on a reused
//! arena.  Two lock-step worlds whose arenas differ in every byte (A seeded, B = !A) run
//! the same writes; a shadow arena per world says what every byte must be.

use crate::c06::{capacities, guarded_size, guarded_write, WRes};
use crate::engine::*;
use crate::json::{hex, J};
use crate::prng::{fnv1a, Rng, FNV_INIT};
use crate::realise::{plan_canonical, realise, realise_probed, Concrete};
use crate::spec::*;

pub struct C17;

fn prefill(seed: u64, len: usize) -> (Vec<u8>, Vec<u8>) {
    let a = Rng::new(seed).bytes(len);
    let b: Vec<u8> = a.iter().map(|x| !x).collect();
    (a, b)
}

fn first_diff(x: &[u8], y: &[u8]) -> Option<usize> {
    x.iter().zip(y.iter()).position(|(a, b)| a != b)
}

/// One write at `cursor..cap` of both worlds; checks the property against the shadows and
/// then updates them.  Returns (result in world A, violation).
#[allow(clippy::too_many_arguments)]
fn twin_write(c: &Concrete<'_>, a: &mut [u8], b: &mut [u8], sa: &mut [u8], sb: &mut [u8], cursor: usize, cap: usize, panics: &mut u64) -> (WRes, Option<(String, String)>) {
    let ra = guarded_write(c, &mut a[cursor..cap]);
    let rb = guarded_write(c, &mut b[cursor..cap]);
    match (&ra, &rb) {
        (WRes::Panic(m), WRes::Panic(_)) => {
            // that the write unwinds at all is C06's finding.  It is a write that failed all the
            // same, and a failed write must leave the whole buffer unchanged
            *panics += 1;
            for (w, (arena, shadow)) in [(&*a, &*sa), (&*b, &*sb)].iter().enumerate() {
                if let Some(i) = first_diff(arena, shadow) {
                    return (ra.clone(), Some(("failed_write_changed_buffer".into(), format!("world {w}: the write unwound ({m}) after changing byte {i} of the buffer"))));
                }
            }
            return (ra, None);
        }
        (WRes::Panic(m), _) | (_, WRes::Panic(m)) => {
            return (ra.clone(), Some(("residue_dependent_panic".into(), format!("the write unwinds in only one of two worlds that differ in buffer contents only: {m}"))));
        }
        _ => {}
    }
    if ra != rb {
        return (ra.clone(), Some(("residue_dependent_result".into(), format!("world A returned {ra:?}, world B returned {rb:?}"))));
    }
    match &ra {
        WRes::Ok(n) => {
            let n = *n;
            if cursor + n > cap {
                return (ra.clone(), Some(("reported_more_than_capacity".into(), format!("returned Ok({n}) for a buffer of {} bytes", cap - cursor))));
            }
            if let Some(i) = first_diff(&a[cursor..cursor + n], &b[cursor..cursor + n]) {
                return (
                    ra.clone(),
                    Some((
                        "written_bytes_depend_on_previous_contents".into(),
                        format!("byte {i} of the {n} bytes reported as written differs between the two worlds (A={:#04x}, B={:#04x}): it was never written", a[cursor + i], b[cursor + i]),
                    )),
                );
            }
            // everything outside [cursor, cursor+n) must be untouched
            for (w, (arena, shadow)) in [(&*a, &*sa), (&*b, &*sb)].iter().enumerate() {
                if let Some(i) = first_diff(&arena[..cursor], &shadow[..cursor]) {
                    return (ra.clone(), Some(("touched_before_cursor".into(), format!("world {w}: byte {i} before the write position changed"))));
                }
                if let Some(i) = first_diff(&arena[cursor + n..], &shadow[cursor + n..]) {
                    return (ra.clone(), Some(("touched_beyond_n".into(), format!("world {w}: byte {} beyond the {n} bytes reported as written changed", n + i))));
                }
            }
            sa[cursor..cursor + n].copy_from_slice(&a[cursor..cursor + n]);
            sb[cursor..cursor + n].copy_from_slice(&b[cursor..cursor + n]);
        }
        WRes::Err(e) => {
            for (w, (arena, shadow)) in [(&*a, &*sa), (&*b, &*sb)].iter().enumerate() {
                if let Some(i) = first_diff(arena, shadow) {
                    return (ra.clone(), Some(("failed_write_changed_buffer".into(), format!("world {w}: write failed with {e:?} but byte {i} of the buffer changed"))));
                }
            }
        }
        WRes::Panic(_) => unreachable!(),
    }
    (ra, None)
}

fn case1(spec: &Spec, cap: usize, prefill_seed: u64, hash_key: u64, probes: u64, tape: &[u32]) -> J {
    J::obj().set("scenario", 1).set("spec", spec.to_json()).set("cap", cap).set("prefill_seed", prefill_seed).set("hash_key", hash_key).set("probes", probes).set("tape", tape.to_vec())
}
fn case2(specs: &[Spec], cap: usize, prefill_seed: u64, hash_key: u64) -> J {
    J::obj().set("scenario", 2).set("specs", J::Arr(specs.iter().map(|s| s.to_json()).collect())).set("cap", cap).set("prefill_seed", prefill_seed).set("hash_key", hash_key)
}

/// Scenario 1: one write of `spec` into a buffer of exactly `cap` bytes in both worlds.
fn run1(spec: &Spec, cap: usize, prefill_seed: u64, hash_key: u64, probes: u64, tape: &[u32], panics: &mut u64) -> (WRes, Option<(String, String)>) {
    let plan = crate::c06::plan_for(spec, tape);
    realise_probed(&plan, hash_key, probes, |c| {
        let (mut a, mut b) = prefill(prefill_seed, cap);
        let (mut sa, mut sb) = (a.clone(), b.clone());
        twin_write(c, &mut a, &mut b, &mut sa, &mut sb, 0, cap, panics)
    })
}

/// Isolated image: what the same builder writes into a fresh zeroed exactly-sized buffer.
fn isolated(spec: &Spec, hash_key: u64) -> Option<Vec<u8>> {
    crate::traffic::real_bytes(spec, hash_key)
}

pub struct ArenaOutcome {
    pub violation: Option<(String, String)>,
    pub writes: u64,
    pub flushes: u64,
    pub too_small: u64,
    pub rejected: u64,
    pub log: Vec<String>,
}

/// Scenario 2: the MTU-packing loop of an RTCP stack over one reused arena.
fn run2(specs: &[Spec], cap: usize, prefill_seed: u64, hash_key: u64, panics: &mut u64, want_log: bool) -> ArenaOutcome {
    let (mut a, mut b) = prefill(prefill_seed, cap);
    let (mut sa, mut sb) = (a.clone(), b.clone());
    let mut o = ArenaOutcome { violation: None, writes: 0, flushes: 0, too_small: 0, rejected: 0, log: Vec::new() };
    let mut cursor = 0usize;
    let mut in_datagram: Vec<usize> = Vec::new(); // indices of specs in the current datagram
    let plans: Vec<_> = specs.iter().map(plan_canonical).collect();

    let flush = |a: &[u8], cursor: usize, members: &[usize], o: &mut ArenaOutcome| {
        if members.is_empty() {
            return;
        }
        o.flushes += 1;
        // the flushed datagram equals the concatenation of the images the same specs produce in isolation
        let mut want = Vec::new();
        for k in members {
            match isolated(&specs[*k], hash_key) {
                Some(img) => want.extend_from_slice(&img),
                None => return, // an isolated write failed or unwound: not comparable
            }
        }
        if want.as_slice() != &a[..cursor] && o.violation.is_none() {
            let i = first_diff(&want, &a[..cursor]).unwrap_or(want.len().min(cursor));
            o.violation = Some((
                "datagram_differs_from_isolated_images".into(),
                format!("flushed datagram of {cursor} bytes differs at byte {i} from the concatenation of the {} images written in isolation ({} bytes)", members.len(), want.len()),
            ));
        }
    };

    for (k, plan) in plans.iter().enumerate() {
        let mut attempts = 0;
        loop {
            attempts += 1;
            let (r, v) = realise(plan, hash_key, |c| twin_write(c, &mut a, &mut b, &mut sa, &mut sb, cursor, cap, panics));
            o.writes += 1;
            if want_log {
                o.log.push(format!("write spec {k} ({}) at cursor {cursor}, capacity left {} -> {r:?}", specs[k].kind_name(), cap - cursor));
            }
            if v.is_some() {
                o.violation = v;
                return o;
            }
            match r {
                WRes::Ok(n) => {
                    cursor += n;
                    in_datagram.push(k);
                    break;
                }
                WRes::Err(crate::c06::RtcpWriteErrorS::TooSmall(_)) => {
                    o.too_small += 1;
                    if attempts >= 2 || cursor == 0 {
                        break; // does not fit an empty arena either: skip the packet
                    }
                    // flush without clearing: the stale image stays as residue for later packets
                    flush(&a, cursor, &in_datagram, &mut o);
                    if o.violation.is_some() {
                        return o;
                    }
                    in_datagram.clear();
                    cursor = 0;
                }
                WRes::Err(_) => {
                    o.rejected += 1;
                    break;
                }
                WRes::Panic(_) => break,
            }
        }
    }
    flush(&a, cursor, &in_datagram, &mut o);
    o
}

impl Check for C17 {
    fn id(&self) -> &'static str {
        "C17"
    }
    fn level(&self) -> &'static str {
        "fault_enumeration"
    }
    fn episodes(&self, tier: Tier) -> u64 {
        match tier {
            Tier::Quick => 4_000_000,
            Tier::Thorough => 180_000_000,
        }
    }
    fn same_class(&self, a: &str, b: &str) -> bool {
        a.split('@').next() == b.split('@').next()
    }

    fn run_episode(&self, seed: u64, idx: u64, ctx: &mut Ctx<'_>, out: &mut Vec<Violation>) {
        let mut wl = Rng::derive(seed, "workload");
        let mut ar = Rng::derive(seed, "arena");
        let hash_key = Rng::derive(seed, "hash").next_u64();
        let gcfg = GenCfg { large: true, ..GenCfg::draw(&mut wl) };
        let mut panics = 0u64;

        // ---- scenario 1: single write, capacity sweep, twin residue
        let spec = gen_spec(&mut wl, &gcfg, 0);
        let kind = spec.kind_name();
        let kh = fnv1a(FNV_INIT, kind.as_bytes());
        let prefill_seed = ar.next_u64();
        // a quarter of the configurations are reached through a seeded call history
        let tape: Vec<u32> = if ar.chance(1, 4) { (0..96).map(|_| ar.u32()).collect() } else { Vec::new() };
        let plan = crate::c06::plan_for(&spec, &tape);
        // in a quarter of the episodes the unfinished builders were observed (size query, scratch
        // write) between configuration calls before the finished builder is written
        let probes = if ar.chance(1, 4) { ar.next_u64() | 1 } else { 0 };
        if probes != 0 {
            ctx.stats.fault("observation-probes", 1);
        }
        if !tape.is_empty() {
            ctx.stats.fault("call-history", 1);
        }
        crate::c06::lend_siblings(&spec, hash_key);
        let found = realise_probed(&plan, hash_key, probes, |c| {
            let n_guess = match guarded_size(c) {
                Some(WRes::Ok(n)) => n,
                // a chunk / item builder has no size function, and a rejected configuration has no
                // size: sweep well past what its elements would occupy, so that a writer that
                // validates late (after storing what precedes the offending element) has the room
                // to get that far
                None => 2 * spec.weight() + 16,
                Some(_) if ar.chance(1, 4) => 2 * spec.weight().min(4096) + 16,
                _ => 16,
            };
            if n_guess > 1 << 19 {
                return None;
            }
            let caps = capacities(n_guess, &mut ar, 160);
            let max = caps.last().copied().unwrap_or(0);
            let (pa, pb) = prefill(prefill_seed, max);
            let mut first = None;
            for cap in caps {
                let (mut a, mut b) = (pa[..cap].to_vec(), pb[..cap].to_vec());
                let (mut sa, mut sb) = (a.clone(), b.clone());
                let (r, v) = twin_write(c, &mut a, &mut b, &mut sa, &mut sb, 0, cap, &mut panics);
                ctx.stats.evaluations += 1;
                ctx.stats.events += 2;
                ctx.stats.fault("residue-twin", 1);
                ctx.stats.fault("capacity", 1);
                let rc = match &r {
                    WRes::Ok(n) => 1 + (cap.saturating_sub(*n).min(9) as u64),
                    WRes::Err(crate::c06::RtcpWriteErrorS::TooSmall(_)) => 20,
                    WRes::Err(_) => 21,
                    WRes::Panic(_) => 22,
                };
                ctx.stats.trace_digest ^= fnv1a(seed ^ cap as u64, &rc.to_le_bytes());
                ctx.stats.sig(&[1, kh, rc, (n_guess as u64 + 3) / 4]);
                if first.is_none() {
                    if let Some((what, detail)) = v {
                        first = Some((cap, what, detail));
                    }
                }
            }
            first
        });
        if let Some((cap, what, detail)) = found {
            // prefill for the replay: same seed, the replay takes the first `cap` bytes of the same stream
            out.push(Violation { class: format!("{what}@{kind}"), detail, episode: idx, case: case1(&spec, cap, prefill_seed, hash_key, probes, &tape), provenance: J::obj().set("swarm", gcfg.to_json()) });
        }
        if ctx.stats.wants_sample("single-write", idx) && spec.weight() < 50 {
            ctx.stats.sample("single-write", idx, || J::obj().set("scenario", 1).set("spec", spec.to_json()).set("capacities", "0..=n+8 in two worlds A and !A"));
        }

        crate::ambient::unlend();

        // ---- scenario 2: arena history (every third episode)
        if idx % 3 == 0 {
            let n = 2 + wl.below(11);
            let pcfg = GenCfg { parts: false, ..gcfg.clone() };
            let specs: Vec<Spec> = (0..n).map(|_| gen_spec(&mut wl, &pcfg, 1)).collect();
            let cap = *wl.pick(&[64usize, 96, 128, 200, 256, 576, 1200, 1500]);
            let ps = ar.next_u64();
            let o = run2(&specs, cap, ps, hash_key, &mut panics, false);
            ctx.stats.evaluations += o.writes;
            ctx.stats.events += 2 * o.writes;
            ctx.stats.fault("arena-history", 1);
            ctx.stats.fault("flush-without-clear", o.flushes);
            ctx.stats.fault("capacity", o.too_small);
            ctx.stats.count("arena_rejected_configs", o.rejected);
            ctx.stats.probe("arena_packet_written_over_stale_image", if o.flushes > 1 { 1 } else { 0 });
            ctx.stats.sig(&[2, o.writes, o.flushes, o.too_small.min(6), o.rejected.min(4), cap as u64]);
            ctx.stats.trace_digest ^= fnv1a(seed ^ 0x2, &(o.writes * 1000 + o.flushes).to_le_bytes());
            if ctx.stats.wants_sample("arena-history", idx) && specs.iter().map(|s| s.weight()).sum::<usize>() < 120 {
                ctx.stats.sample("arena-history", idx, || case2(&specs, cap, ps, hash_key).set("writes", o.writes).set("flushes", o.flushes));
            }
            if let Some((what, detail)) = o.violation {
                out.push(Violation { class: format!("{what}@arena"), detail, episode: idx, case: case2(&specs, cap, ps, hash_key), provenance: J::obj().set("swarm", gcfg.to_json()) });
            }
        }
        ctx.stats.inconclusive_panics += panics;
    }

    fn replay(&self, case: &J, log: Option<&mut Vec<String>>) -> Result<Option<(String, String)>, String> {
        let cap = case.usize_of("cap")?;
        let ps = case.u64_of("prefill_seed")?;
        let key = case.u64_of("hash_key")?;
        let mut panics = 0;
        match case.usize_of("scenario")? {
            1 => {
                let spec = Spec::from_json(case.obj_of("spec")?)?;
                let (r, v) = run1(&spec, cap, ps, key, case.u64_of("probes").unwrap_or(0), &crate::c06::case_tape(case), &mut panics);
                if let Some(l) = log {
                    let (a, b) = prefill(ps, cap.min(32));
                    l.push(format!("world A prefill {}.. world B prefill {}..", hex(&a), hex(&b)));
                    l.push(format!("write_into(capacity {cap}) -> {r:?}"));
                }
                Ok(v.map(|(w, d)| (format!("{w}@{}", spec.kind_name()), d)))
            }
            2 => {
                let specs = case.arr_of("specs")?.iter().map(Spec::from_json).collect::<Result<Vec<_>, _>>()?;
                let o = run2(&specs, cap, ps, key, &mut panics, log.is_some());
                if let Some(l) = log {
                    *l = o.log;
                }
                Ok(o.violation.map(|(w, d)| (format!("{w}@arena"), d)))
            }
            s => Err(format!("unknown scenario {s}")),
        }
    }

    fn shrink(&self, case: &J) -> Vec<J> {
        let (Ok(cap), Ok(ps), Ok(key), Ok(sc)) = (case.usize_of("cap"), case.u64_of("prefill_seed"), case.u64_of("hash_key"), case.usize_of("scenario")) else { return vec![] };
        let mut out = Vec::new();
        if sc == 1 {
            let Ok(spec) = case.obj_of("spec").and_then(Spec::from_json) else { return vec![] };
            let probes = case.u64_of("probes").unwrap_or(0);
            let tape = crate::c06::case_tape(case);
            for s in spec.shrinks() {
                out.push(case1(&s, cap, ps, key, probes, &tape));
                for c in [8usize, 12, 16, 20, 24, 28, 32, 40, 48] {
                    if c != cap && s.weight() <= 64 {
                        out.push(case1(&s, c, ps, key, probes, &tape));
                    }
                }
            }
            for c in [cap / 2, cap.saturating_sub(4), cap.saturating_sub(1)] {
                if c != cap {
                    out.push(case1(&spec, c, ps, key, probes, &tape));
                }
            }
            if !tape.is_empty() {
                out.push(case1(&spec, cap, ps, key, probes, &[]));
                for t in crate::shrinkb::shrink_tape(&tape).into_iter().take(12) {
                    if !t.is_empty() {
                        out.push(case1(&spec, cap, ps, key, probes, &t));
                    }
                }
            }
            if probes != 0 {
                out.push(case1(&spec, cap, ps, key, 0, &tape));
                out.push(case1(&spec, cap, ps, key, u64::MAX, &tape));
            }
            for p in [0u64, 1] {
                if p != ps {
                    out.push(case1(&spec, cap, p, key, probes, &tape));
                }
            }
        } else {
            let Ok(specs) = case.arr_of("specs").and_then(|a| a.iter().map(Spec::from_json).collect::<Result<Vec<_>, _>>()) else { return vec![] };
            // a single spec alone (scenario 1 is simpler when it already shows there)
            for s in &specs {
                for c in [16usize, 24, 32, 64, cap] {
                    out.push(case1(s, c, ps, key, 0, &[]));
                }
            }
            for i in 0..specs.len() {
                let mut v = specs.clone();
                v.remove(i);
                if !v.is_empty() {
                    out.push(case2(&v, cap, ps, key));
                }
            }
            for (i, s) in specs.iter().enumerate() {
                for sh in s.shrinks().into_iter().take(40) {
                    let mut v = specs.clone();
                    v[i] = sh;
                    out.push(case2(&v, cap, ps, key));
                }
            }
            for c in [64usize, 128, cap / 2] {
                if c != cap && c >= 16 {
                    out.push(case2(&specs, c, ps, key));
                }
            }
        }
        out
    }

    fn rule(&self) -> String {
        "Scenario 1 (every episode): one builder configuration (same generator as C06, accepted and rejected) written into buffers of every capacity 0..=n+8 (n <= 160, sampled beyond) in two lock-step worlds whose buffers differ in every byte (A seeded, B = !A), each checked against a shadow buffer. Scenario 2 (every third episode): an MTU-packing loop over 2-12 packets on one reused arena of 64..1500 bytes with flush-without-clear, so later packets are written over stale images and next to live neighbours; shadow arena per world, and each flushed datagram is compared with the concatenation of the images the same builders write in isolation. evaluations = twin writes. Non-trivial: every twin write has the residue fault active; distinct = distinct (scenario, builder kind, result class incl. slack, n in words) resp. (writes, flushes, too-small events, rejected configs, arena size).".into()
    }
    fn assumptions(&self) -> Vec<String> {
        vec![
            "a byte that is never written differs between the two worlds, because every byte of B is the complement of A".into(),
            "a write that unwinds in both worlds is C06's finding: counted as inconclusive and the arena is not judged after it; unwinding in only one world is a C17 violation".into(),
            "safe Rust cannot write outside the slice it is handed, so bytes before the cursor / after the capacity limit are covered by the slice boundaries; the check is on the bytes inside the slice".into(),
        ]
    }
    fn components(&self) -> J {
        J::obj()
            .set("real", J::Arr(vec!["every rtcp-types builder: write_into / write_into_unchecked, utils::writer helpers".into()]))
            .set("stub", J::Arr(vec!["twin output arenas with seeded residue and swept capacity (S-buf)".into(), "MTU-packing loop of a sender".into(), "shadow arenas (oracle)".into()]))
    }
    fn exhaustive_dimensions(&self) -> Vec<String> {
        vec!["capacity 0..=n+8 per configuration with n <= 160, in both residue worlds".into()]
    }
}
