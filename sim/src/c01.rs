//! C01 — parsing untrusted bytes never panics and always terminates.
//!
//! The receiver node's availability under whatever the channel delivers: a panic is a node
//! crash, a non-terminating iterator a stalled node.

use crate::engine::*;
use crate::faults::*;
use crate::json::{hex, unhex, J};
use crate::prng::{fnv1a, Rng};
use crate::receiver::{self, Obs, ENTRY_NAMES, PROBE_NAMES};
use crate::shrinkb::{shrink_bytes, shrink_tape};
use crate::spec::GenCfg;
use crate::tape::Tape;
use crate::traffic::gen_datagram;

pub struct C01;

const TAPE_LEN: usize = 192;

fn case_json(bytes: &[u8], tape: &[u32]) -> J {
    J::obj().set("deliver", hex(bytes)).set("tape", tape.to_vec())
}

pub fn parse_case(case: &J) -> Result<(Vec<u8>, Vec<u32>), String> {
    let bytes = unhex(case.str_of("deliver")?)?;
    let tape = case.arr_of("tape")?.iter().map(|v| v.as_u64().map(|x| x as u32).ok_or("tape entry".to_string())).collect::<Result<Vec<_>, _>>()?;
    Ok((bytes, tape))
}

/// Execute one delivery; Some((class, detail)) on a violation.
fn run_case(bytes: &[u8], tape: &mut Tape, obs: &mut Obs) -> Option<(String, String)> {
    // received in place in the worker's reusable receive buffer, over the previous delivery
    crate::arena::deliver_in_place(bytes, |slice| run_case_here(slice, tape, obs))
}

fn run_case_here(bytes: &[u8], tape: &mut Tape, obs: &mut Obs) -> Option<(String, String)> {
    match receiver::deliver(bytes, tape, obs) {
        Err((p, op)) => Some((format!("Panic@{op}"), format!("panicked at {}: {}", p.short_loc(), p.msg))),
        Ok(()) => obs.fail.as_ref().map(|f| (f.class(), f.detail.clone())),
    }
}

/// One delivery to the receiver node: run it, account for it, record a violation.
#[allow(clippy::too_many_arguments)]
fn delivery(dseed: u64, idx: u64, ctx: &mut Ctx<'_>, out: &mut Vec<Violation>, tr: &mut Rng, d: &[u8], faulted: bool, fired_kinds: u64, source: &str, faults_json: &dyn Fn() -> J, prov: &dyn Fn() -> J) {
    let tape_vals: Vec<u32> = (0..TAPE_LEN).map(|_| tr.u32()).collect();
    ctx.publish_raw(idx, d, &tape_vals);
    let mut tape = Tape::replaying(tape_vals);
    let mut obs = Obs::new(false);
    let verdict = run_case(d, &mut tape, &mut obs);
    ctx.stats.evaluations += 1;
    ctx.stats.events += obs.events;
    for (i, p) in obs.probes.iter().enumerate() {
        if *p > 0 {
            ctx.stats.probe(PROBE_NAMES[i], *p);
        }
    }
    for (i, n) in ENTRY_NAMES.iter().enumerate() {
        if obs.accepted & (1 << i) != 0 {
            ctx.stats.count(&format!("accepted_by_{n}"), 1);
        }
    }
    ctx.stats.trace_digest ^= fnv1a(dseed, &obs.hash.to_le_bytes());
    if faulted && obs.accepted != 0 {
        // non-trivial: a fault fired and the receiver went past a first validation
        let lc = (d.len().min(4096) as u64 + 3) / 4;
        ctx.stats.sig(&[obs.accepted as u64, fired_kinds, lc, verdict.is_some() as u64]);
    }
    let kind = match (faulted, obs.accepted != 0) {
        (false, _) => "intact",
        (true, false) => "faulted-rejected-everywhere",
        (true, true) => "faulted-accepted-somewhere",
    };
    if ctx.stats.wants_sample(kind, idx) && d.len() <= 200 {
        ctx.stats.sample(kind, idx, || {
            J::obj()
                .set("source", source)
                .set("faults", faults_json())
                .set("deliver", hex(d))
                .set("accepted_by", J::Arr(ENTRY_NAMES.iter().enumerate().filter(|(i, _)| obs.accepted & (1 << i) != 0).map(|(_, n)| J::from(*n)).collect()))
                .set("receiver_ops", obs.events)
        });
    }
    if let Some((class, detail)) = verdict {
        let used = tape.rec.len().min(TAPE_LEN);
        let tape_used: Vec<u32> = tape_fixed_prefix(&tape, used);
        out.push(Violation { class, detail, episode: idx, case: case_json(d, &tape_used).set("previous", hex(&crate::arena::previous())), provenance: prov() });
    }
}

impl Check for C01 {
    fn id(&self) -> &'static str {
        "C01"
    }
    fn level(&self) -> &'static str {
        "exploration"
    }
    fn episodes(&self, tier: Tier) -> u64 {
        match tier {
            Tier::Quick => 800_000,
            Tier::Thorough => 45_000_000,
        }
    }
    fn hang_is_violation(&self) -> bool {
        true
    }

    fn run_episode(&self, seed: u64, idx: u64, ctx: &mut Ctx<'_>, out: &mut Vec<Violation>) {
        let mut wl = Rng::derive(seed, "workload");
        let mut fr = Rng::derive(seed, "faults");
        let mut tr = Rng::derive(seed, "tape");
        let hash_key = Rng::derive(seed, "hash").next_u64();
        let gcfg = GenCfg { large: true, ..GenCfg::valid_only(&mut wl) };
        let fcfg = FaultCfg::draw(&mut fr);
        let n_dgrams = 1 + wl.below(4);
        let mut bases = Vec::new();
        for _ in 0..n_dgrams {
            // one episode in a thousand carries a long tile chain
            if wl.chance(1, 1000) {
                let mut b = Vec::new();
                for _ in 0..300 {
                    b.extend_from_slice(&[0x80, 203, 0, 0]);
                }
                bases.push(crate::traffic::Base { bytes: b, source: "foreign", specs: vec![] });
            } else {
                bases.push(gen_datagram(&mut wl, &gcfg, 4, hash_key));
            }
        }
        for k in 0..bases.len() {
            let mut d = bases[k].bytes.clone();
            let mut applied: Vec<Fault> = Vec::new();
            let mut fired_kinds = 0u64;
            if fr.below(1000) >= fcfg.intact_pm {
                let nf = 1 + fr.below(fcfg.max_per_datagram);
                for _ in 0..nf {
                    let next = bases.get(k + 1).map(|b| b.bytes.as_slice());
                    if let Some(f) = draw_fault(&mut fr, &fcfg, &d, next) {
                        if f.apply(&mut d) {
                            ctx.stats.fault(f.kind_name(), 1);
                            fired_kinds = fired_kinds.wrapping_mul(31).wrapping_add(f.kind() as u64 + 1);
                            applied.push(f);
                        }
                    }
                }
            }
            let prov = || bases[k].provenance().set("faults", J::Arr(applied.iter().map(|f| f.to_json()).collect())).set("swarm", fcfg.to_json());
            let faults_json = || J::Arr(applied.iter().map(|f| f.to_json()).collect());
            delivery(seed ^ k as u64, idx, ctx, out, &mut tr, &d, !applied.is_empty(), fired_kinds, bases[k].source, &faults_json, &prov);
        }
        if idx == crate::lensweep::LONG_CHAIN_EPISODE {
            let chain = crate::lensweep::long_chain();
            ctx.stats.fault("long-chain", 1);
            let desc = || J::Arr(vec![J::from("2^20 header-only packets")]);
            delivery(seed ^ 0x10c, idx, ctx, out, &mut tr, &chain, true, 0x10c, "long-chain", &desc, &|| J::obj().set("source", "2^20 header-only packets"));
        }
        // the 16-bit length field: a delivery of up to 256 KiB through every accessor, Debug
        // rendering and iterator costs tens of milliseconds, so this consumer takes the values
        // arithmetic is most likely to get wrong (about 70 in quick, about 800 in thorough); the
        // full 65536-value sweep runs in C08 / C11 / C18
        for v in crate::lensweep::values_for(idx) {
            let wanted = if ctx.tier == Tier::Quick { crate::lensweep::is_key_value(v) } else { crate::lensweep::is_edge_value(v) };
            if !wanted {
                continue;
            }
            let mut frames: Vec<crate::lensweep::Frame> =
                crate::lensweep::packet_frames(v, true).into_iter().filter(|f| f.b0 != 0x81 && f.pt != 0 && f.pt != 192 && (f.delta == 0 || (f.delta > 4 && (v < 4 || v >= 0xfffe)) || (f.pt == 207 && f.delta.abs() == 1))).collect();
            frames.extend(crate::lensweep::compound_frames(v).into_iter().filter(|f| f.pt != 201 && (f.trail || f.delta == 0 || (f.delta > 4 && (v < 4 || v >= 0xfffe)))));
            for fr in frames {
                crate::lensweep::with_frame(&fr, |d| {
                    ctx.stats.fault("hdr-length-sweep", 1);
                    let desc = || J::Arr(vec![J::from(fr.describe())]);
                    delivery(seed ^ v as u64, idx, ctx, out, &mut tr, d, true, 0x1e5, "length-field-sweep", &desc, &|| J::obj().set("source", fr.describe()));
                });
            }
        }
    }

    fn replay(&self, case: &J, log: Option<&mut Vec<String>>) -> Result<Option<(String, String)>, String> {
        let (bytes, tape) = parse_case(case)?;
        // a fixed call history, in this process as in a fresh one: a neutral delivery, then what
        // the receive buffer held before, then the delivery itself
        let _ = run_case(&[0x80, 203, 0, 0], &mut Tape::canonical(), &mut Obs::new(false));
        if let Ok(prev) = case.str_of("previous").and_then(|h| unhex(h)) {
            if !prev.is_empty() {
                let _ = run_case(&prev, &mut Tape::canonical(), &mut Obs::new(false));
            }
        }
        let mut t = Tape::replaying(tape);
        let mut obs = Obs::new(log.is_some());
        let r = run_case(&bytes, &mut t, &mut obs);
        if let (Some(l), Some(ol)) = (log, obs.log.take()) {
            *l = ol;
        }
        Ok(r)
    }

    fn shrink(&self, case: &J) -> Vec<J> {
        let Ok((bytes, tape)) = parse_case(case) else { return vec![] };
        let prev = case.str_of("previous").unwrap_or("").to_string();
        let mk = |b: &[u8], t: &[u32]| if prev.is_empty() { case_json(b, t) } else { case_json(b, t).set("previous", prev.as_str()) };
        let mut out = Vec::new();
        // most violations do not need the previous content of the buffer: try without it first
        if !prev.is_empty() {
            out.push(case_json(&bytes, &tape));
        }
        for t in shrink_tape(&tape).into_iter().take(3) {
            out.push(mk(&bytes, &t));
        }
        for b in shrink_bytes(&bytes) {
            out.push(mk(&b, &tape));
        }
        for t in shrink_tape(&tape).into_iter().skip(3) {
            out.push(mk(&bytes, &t));
        }
        out
    }

    fn rule(&self) -> String {
        "Episodes of 1-4 datagrams; each datagram is 1-4 stacked packets from the real builders or the foreign RFC encoder, then 0-4 composed channel faults (truncate, extend, coalesce, bit flip, byte set, header field, padding trailer, inner length byte, reframe, misroute) drawn from the episode's swarm configuration; the receiver then runs Compound/Packet/8 typed parsers/ReportBlock/5 FCI parsers (direct, on seeded sub-slices, and via parse_fci) and a tape-driven read-out history over every public accessor, conversion and iterator; plus once per run a chain of 2^20 header-only packets; plus, in the first 4096 episodes, length-field sweep frames (single packets of every type and compounds of up to 256 KiB) for the ~70 (quick) / ~800 (thorough) field values arithmetic is most likely to get wrong. evaluations = deliveries. A delivery is non-trivial when at least one fault fired (changed the bytes) and at least one entry point accepted the damaged bytes (the receiver went past validation into accessor code); distinct = distinct (set of accepting entry points, ordered fault-kind sequence, length in words, verdict). In a quarter of the deliveries bystander traffic (fixed well-formed packets of every kind) is parsed and read on the same thread between the parse of a view and its read-out and between iterator steps.".into()
    }
    fn assumptions(&self) -> Vec<String> {
        vec![
            "sampling, not proof: a clean batch is evidence only".into(),
            "built with overflow-checks and debug-assertions on, so arithmetic overflow counts as a panic (as in a debug build of a user's application)".into(),
            "the two documented-panic calls (priv_prefix_len / priv_prefix) are issued on PRIV items only; From<RtcpParseError> for RtcpWriteError converts an error, not a returned value, and is not called".into(),
            "a call that does not return within the watchdog limit is reported as a hang; a call that takes the process down (stack overflow, abort) is located by bisection over the deterministic episodes and reported as a crash".into(),
            "deliveries are received in place in one reusable buffer per worker, over the previous delivery; a reported case carries that previous content".into(),
            "after the run, ./check delivers 2^20-packet chains to an unoptimised (dev profile) build as well, where recursion is not turned into a loop".into(),
        ]
    }
    fn components(&self) -> J {
        J::obj()
            .set("real", J::Arr(vec!["rtcp-types parsers, accessors, iterators, conversions (receiver)".into(), "rtcp-types builders (sender, part of the traffic)".into()]))
            .set("stub", J::Arr(vec!["channel + fault injector".into(), "foreign peer RFC encoder (traffic source only)".into()]))
    }
    fn exhaustive_dimensions(&self) -> Vec<String> {
        vec![]
    }
}

fn tape_fixed_prefix(t: &Tape, used: usize) -> Vec<u32> {
    // the recorded choices are already reduced modulo their range; replaying them gives the same choices
    t.rec.iter().take(used).copied().collect()
}
