//! The channel (S-chan): fault kinds applied to a datagram between sender and receiver.
//! STUB component (the environment), seeded and counted.

use crate::json::{hex, J};
use crate::prng::Rng;

#[derive(Clone, Debug, PartialEq, Eq)]
pub enum HdrField {
    Byte0,
    Version,
    PBit,
    Count,
    Pt,
    Len,
}

#[derive(Clone, Debug, PartialEq, Eq)]
pub enum Fault {
    Truncate { len: usize },
    Extend { bytes: Vec<u8> },
    ExtendSelf { n: usize },
    Coalesce { bytes: Vec<u8> },
    BitFlip { off: usize, bit: u8 },
    ByteSet { off: usize, val: u8 },
    Hdr { tile: usize, field: HdrField, val: u16 },
    Trailer { tile: usize, val: u8, p_bit: Option<bool> },
    InnerLen { off: usize, val: u8, what: &'static str },
    Reframe,
    Misroute { bytes: Vec<u8>, keep_header: bool },
}

pub const KINDS: [&str; 11] = ["truncate", "extend", "extend-self", "coalesce", "bitflip", "byteset", "hdr", "trailer", "inner-len", "reframe", "misroute"];

impl Fault {
    pub fn kind(&self) -> usize {
        match self {
            Fault::Truncate { .. } => 0,
            Fault::Extend { .. } => 1,
            Fault::ExtendSelf { .. } => 2,
            Fault::Coalesce { .. } => 3,
            Fault::BitFlip { .. } => 4,
            Fault::ByteSet { .. } => 5,
            Fault::Hdr { .. } => 6,
            Fault::Trailer { .. } => 7,
            Fault::InnerLen { .. } => 8,
            Fault::Reframe => 9,
            Fault::Misroute { .. } => 10,
        }
    }
    pub fn kind_name(&self) -> &'static str {
        KINDS[self.kind()]
    }

    pub fn to_json(&self) -> J {
        let o = J::obj().set("kind", self.kind_name());
        match self {
            Fault::Truncate { len } => o.set("len", *len),
            Fault::Extend { bytes } => o.set("bytes", hex(&bytes[..bytes.len().min(64)])).set("n", bytes.len()),
            Fault::ExtendSelf { n } => o.set("n", *n),
            Fault::Coalesce { bytes } => o.set("bytes", hex(&bytes[..bytes.len().min(64)])).set("n", bytes.len()),
            Fault::BitFlip { off, bit } => o.set("off", *off).set("bit", *bit),
            Fault::ByteSet { off, val } => o.set("off", *off).set("val", *val),
            Fault::Hdr { tile, field, val } => o.set("tile", *tile).set("field", format!("{field:?}")).set("val", *val),
            Fault::Trailer { tile, val, p_bit } => {
                let o = o.set("tile", *tile).set("val", *val);
                match p_bit {
                    Some(b) => o.set("p_bit", *b),
                    None => o,
                }
            }
            Fault::InnerLen { off, val, what } => o.set("off", *off).set("val", *val).set("what", *what),
            Fault::Reframe => o,
            Fault::Misroute { bytes, keep_header } => o.set("bytes", hex(&bytes[..bytes.len().min(64)])).set("n", bytes.len()).set("keep_header", *keep_header),
        }
    }

    /// Apply to `d`; returns whether anything changed (the fault "fired").
    pub fn apply(&self, d: &mut Vec<u8>) -> bool {
        let before_len = d.len();
        match self {
            Fault::Truncate { len } => {
                if *len < d.len() {
                    d.truncate(*len);
                    return true;
                }
                false
            }
            Fault::Extend { bytes } | Fault::Coalesce { bytes } => {
                d.extend_from_slice(bytes);
                !bytes.is_empty()
            }
            Fault::ExtendSelf { n } => {
                let n = (*n).min(d.len());
                let pre = d[..n].to_vec();
                d.extend_from_slice(&pre);
                d.len() != before_len
            }
            Fault::BitFlip { off, bit } => {
                if *off < d.len() {
                    d[*off] ^= 1 << (bit & 7);
                    return true;
                }
                false
            }
            Fault::ByteSet { off, val } | Fault::InnerLen { off, val, .. } => {
                if *off < d.len() && d[*off] != *val {
                    d[*off] = *val;
                    return true;
                }
                false
            }
            Fault::Hdr { tile, field, val } => {
                let ts = tiles(d);
                let Some(&(o, l)) = ts.get(*tile) else { return false };
                if l < 4 {
                    return false;
                }
                let old = d[o..o + 4].to_vec();
                match field {
                    HdrField::Byte0 => d[o] = *val as u8,
                    HdrField::Version => d[o] = (d[o] & 0x3f) | ((*val as u8 & 3) << 6),
                    HdrField::PBit => d[o] = (d[o] & !0x20) | if *val != 0 { 0x20 } else { 0 },
                    HdrField::Count => d[o] = (d[o] & 0xe0) | (*val as u8 & 0x1f),
                    HdrField::Pt => d[o + 1] = *val as u8,
                    HdrField::Len => d[o + 2..o + 4].copy_from_slice(&val.to_be_bytes()),
                }
                old != d[o..o + 4]
            }
            Fault::Trailer { tile, val, p_bit } => {
                let ts = tiles(d);
                let Some(&(o, l)) = ts.get(*tile) else { return false };
                if l < 4 {
                    return false;
                }
                let (b0, last) = (d[o], d[o + l - 1]);
                d[o + l - 1] = *val;
                if let Some(b) = p_bit {
                    d[o] = (d[o] & !0x20) | if *b { 0x20 } else { 0 };
                }
                b0 != d[o] || last != d[o + l - 1]
            }
            Fault::Reframe => {
                // make the last reachable tile span the rest of the datagram (trimmed to 32 bits)
                let ts = tiles(d);
                let Some(&(o, _)) = ts.last() else { return false };
                let rest = (d.len() - o) & !3;
                if rest < 4 {
                    return false;
                }
                let old = d.clone();
                d.truncate(o + rest);
                let words = (rest / 4 - 1).min(0xffff) as u16;
                d[o + 2..o + 4].copy_from_slice(&words.to_be_bytes());
                old != *d
            }
            Fault::Misroute { bytes, keep_header } => {
                let hdr: Vec<u8> = d.iter().take(4).copied().collect();
                let old = std::mem::replace(d, bytes.clone());
                if *keep_header && hdr.len() == 4 && d.len() >= 4 {
                    d[..4].copy_from_slice(&hdr);
                    // keep it framed: the length field follows the new size when aligned
                    if d.len() % 4 == 0 {
                        let w = (d.len() / 4 - 1).min(0xffff) as u16;
                        d[2..4].copy_from_slice(&w.to_be_bytes());
                    }
                }
                old != *d
            }
        }
    }
}

/// Independent header walk: (offset, length) of each tile the length chain reaches.
/// The last entry may be a partial tile (shorter than its length field claims, or < 4 bytes).
pub fn tiles(d: &[u8]) -> Vec<(usize, usize)> {
    let mut out = Vec::new();
    let mut off = 0;
    while off < d.len() {
        if d.len() - off < 4 {
            out.push((off, d.len() - off));
            break;
        }
        let l = 4 * (u16::from_be_bytes([d[off + 2], d[off + 3]]) as usize + 1);
        if off + l > d.len() {
            out.push((off, d.len() - off));
            break;
        }
        out.push((off, l));
        off += l;
    }
    out
}

/// Offsets of inner length bytes: SDES item length / PRIV prefix length, BYE reason length,
/// RPSI padding-bit count.  Computed by a lenient walk over the bytes.
pub fn inner_len_sites(d: &[u8]) -> Vec<(usize, &'static str)> {
    let mut out = Vec::new();
    for (o, l) in tiles(d) {
        if l < 8 {
            continue;
        }
        let t = &d[o..o + l];
        match t[1] {
            202 => {
                // chunks: ssrc, items..., 0, fill
                let mut p = 4;
                'chunks: while p + 4 <= l {
                    p += 4;
                    loop {
                        if p >= l {
                            break 'chunks;
                        }
                        if t[p] == 0 {
                            p = (p + 4) & !3;
                            break;
                        }
                        if p + 1 >= l {
                            break 'chunks;
                        }
                        out.push((o + p + 1, "sdes-item-len"));
                        if t[p] == 8 && p + 2 < l {
                            out.push((o + p + 2, "sdes-priv-prefix-len"));
                        }
                        p += 2 + t[p + 1] as usize;
                    }
                }
            }
            203 => {
                let r = 4 + 4 * (t[0] & 0x1f) as usize;
                if r < l {
                    out.push((o + r, "bye-reason-len"));
                }
            }
            206 if t[0] & 0x1f == 3 && l > 12 => out.push((o + 12, "rpsi-pb")),
            _ => {}
        }
    }
    out
}

fn garbage(r: &mut Rng, n: usize) -> Vec<u8> {
    match r.below(3) {
        0 => vec![0; n],
        1 => vec![0xff; n],
        _ => r.bytes(n),
    }
}

/// Non-RTCP payloads that share a port with RTCP (rtcp-mux) or come from a hostile peer.
pub fn misroute_bytes(r: &mut Rng) -> Vec<u8> {
    match r.below(5) {
        0 => {
            // RTP
            let n = r.range(12, 60);
            let mut b = r.bytes(n);
            b[0] = 0x80 | (b[0] & 0x3f);
            b[1] = r.below(128) as u8;
            b
        }
        1 => {
            // STUN
            let n = 20 + 4 * r.below(8);
            let mut b = r.bytes(n);
            b[0] = 0;
            b[1] = 1;
            b[2..4].copy_from_slice(&((n - 20) as u16).to_be_bytes());
            b[4..8].copy_from_slice(&[0x21, 0x12, 0xa4, 0x42]);
            b
        }
        2 => {
            // DTLS record
            let n = r.range(13, 50);
            let mut b = r.bytes(n);
            b[0] = 20 + r.below(4) as u8;
            b[1] = 0xfe;
            b[2] = 0xfd;
            b
        }
        3 => {
            let n = r.range(0, 40);
            r.bytes(n)
        }
        _ => {
            let n = 4 * r.range(1, 12);
            r.bytes(n)
        }
    }
}

/// Which fault kinds an episode enables (swarm configuration).
#[derive(Clone, Debug)]
pub struct FaultCfg {
    pub enabled: [bool; 11],
    /// max faults composed per datagram
    pub max_per_datagram: usize,
    /// per-mille probability that a datagram is delivered intact
    pub intact_pm: usize,
}

impl FaultCfg {
    pub fn draw(r: &mut Rng) -> FaultCfg {
        let mut enabled = [false; 11];
        let style = r.below(4);
        for e in enabled.iter_mut() {
            *e = match style {
                0 => true,
                1 => r.chance(1, 2),
                2 => r.chance(1, 4),
                _ => r.chance(3, 4),
            };
        }
        if !enabled.iter().any(|e| *e) {
            enabled[r.below(11)] = true;
        }
        FaultCfg { enabled, max_per_datagram: *r.pick(&[1, 1, 2, 3, 4]), intact_pm: *r.pick(&[0, 100, 300, 600]) }
    }
    pub fn to_json(&self) -> J {
        J::obj()
            .set("enabled", J::Arr(KINDS.iter().zip(self.enabled.iter()).filter(|(_, e)| **e).map(|(k, _)| J::from(*k)).collect()))
            .set("max_per_datagram", self.max_per_datagram)
            .set("intact_pm", self.intact_pm)
    }
}

fn structural_offset(r: &mut Rng, d: &[u8]) -> usize {
    // bias positional faults to header words, trailer bytes, inner length bytes and the
    // +-1 neighbourhood of tile boundaries
    let ts = tiles(d);
    if d.is_empty() {
        return 0;
    }
    if r.chance(1, 2) || ts.is_empty() {
        return r.below(d.len());
    }
    let (o, l) = ts[r.below(ts.len())];
    let cand = match r.below(6) {
        0 => o + r.below(4.min(l.max(1))),
        1 => o + l - 1,
        2 => (o + l).saturating_sub(r.range(1, 2)),
        3 => o + 4 + r.below(8),
        4 => {
            let sites = inner_len_sites(d);
            if sites.is_empty() {
                o
            } else {
                sites[r.below(sites.len())].0
            }
        }
        _ => o + r.below(l.max(1)),
    };
    cand.min(d.len() - 1)
}

/// Draw one fault against the current bytes `d`.  `next` is the datagram that follows on the
/// wire (for coalescing).
pub fn draw_fault(r: &mut Rng, cfg: &FaultCfg, d: &[u8], next: Option<&[u8]>) -> Option<Fault> {
    let kinds: Vec<usize> = (0..11).filter(|k| cfg.enabled[*k]).collect();
    let k = *r.pick(&kinds);
    let nt = tiles(d).len().max(1);
    Some(match k {
        0 => {
            if d.is_empty() {
                return None;
            }
            let len = match r.below(4) {
                0 => d.len() - 1,
                1 => d.len().saturating_sub(4),
                2 => {
                    // cut exactly at / around a tile boundary
                    let ts = tiles(d);
                    let (o, _) = ts[r.below(ts.len())];
                    (o + r.below(5)).min(d.len() - 1)
                }
                _ => r.below(d.len()),
            };
            Fault::Truncate { len }
        }
        1 => {
            let n = if r.chance(1, 500) { 70_000 + r.below(200_000) } else { *r.pick(&[1, 2, 3, 4, 4, 8, 12, 24]) };
            Fault::Extend { bytes: garbage(r, n) }
        }
        2 => Fault::ExtendSelf { n: if r.chance(1, 2) { d.len() } else { r.below(d.len() + 1) } },
        3 => Fault::Coalesce { bytes: next.map(|n| n.to_vec()).unwrap_or_else(|| d.to_vec()) },
        4 => {
            if d.is_empty() {
                return None;
            }
            Fault::BitFlip { off: structural_offset(r, d), bit: r.below(8) as u8 }
        }
        5 => {
            if d.is_empty() {
                return None;
            }
            Fault::ByteSet { off: structural_offset(r, d), val: *r.pick(&[0u8, 1, 2, 3, 4, 8, 0x7f, 0x80, 0xfe, 0xff, 0x20, 0xa0]) }
        }
        6 => {
            let tile = r.below(nt);
            let (field, val) = match r.below(6) {
                0 => (HdrField::Byte0, r.below(256) as u16),
                1 => (HdrField::Version, r.below(4) as u16),
                2 => (HdrField::PBit, r.below(2) as u16),
                3 => (HdrField::Count, r.below(32) as u16),
                4 => (HdrField::Pt, if r.chance(2, 3) { r.range(198, 210) as u16 } else { r.below(256) as u16 }),
                _ => {
                    let ts = tiles(d);
                    let cur = ts.get(tile).map(|t| (t.1 / 4).saturating_sub(1)).unwrap_or(0) as i64;
                    let v = match r.below(6) {
                        0 => 0,
                        1 => 0xffff,
                        2 => cur + 1,
                        3 => cur - 1,
                        4 => cur + 2,
                        _ => cur - 2,
                    };
                    (HdrField::Len, v.clamp(0, 0xffff) as u16)
                }
            };
            Fault::Hdr { tile, field, val }
        }
        7 => {
            let tile = r.below(nt);
            let ts = tiles(d);
            let body = ts.get(tile).map(|t| t.1).unwrap_or(4) as i64;
            let val = match r.below(10) {
                0 => 0,
                1 => 1,
                2 => 2,
                3 => 3,
                4 => 4,
                5 => body - 1,
                6 => body,
                7 => body + 1,
                8 => body - 12,
                _ => 255,
            };
            Fault::Trailer { tile, val: val.clamp(0, 255) as u8, p_bit: [None, Some(true), Some(true), Some(false)][r.below(4)] }
        }
        8 => {
            let sites = inner_len_sites(d);
            if sites.is_empty() {
                return None;
            }
            let (off, what) = sites[r.below(sites.len())];
            let cur = d[off] as i64;
            let val = match r.below(7) {
                0 => cur + 1,
                1 => cur - 1,
                2 => cur + 2,
                3 => 0,
                4 => 255,
                5 => cur + 4,
                _ => r.below(256) as i64,
            };
            Fault::InnerLen { off, val: val.clamp(0, 255) as u8, what }
        }
        9 => Fault::Reframe,
        _ => Fault::Misroute { bytes: misroute_bytes(r), keep_header: r.chance(1, 2) },
    })
}
