//! C11 — compound parsing tiles the datagram and iterates it faithfully.
//!
//! Acceptance is a property of the delivered datagram's whole length chain (what truncation
//! and coalescing change); the iterator is a two-variable state machine whose stop / fuse
//! behaviour depends on where an error sits and on what is called after the end.

use crate::c08::be16;
use crate::engine::*;
use crate::enumf::*;
use crate::faults::Fault;
use crate::guard::guarded;
use crate::json::{hex, unhex, J};
use crate::prng::{fnv1a, Rng, FNV_INIT};
use crate::shrinkb::{shrink_bytes, shrink_tape};
use crate::spec::{gen_packet, strip_padding, GenCfg, Spec};
use crate::tape::Tape;
use crate::traffic::{gen_datagram, real_bytes, Base};
use rtcp_types::prelude::*;
use rtcp_types::*;

pub struct C11;

/// Reference tiler: Some(tiles) iff the length chain partitions `b` exactly.
pub fn reference_tiling(b: &[u8]) -> Option<Vec<(usize, usize)>> {
    if b.is_empty() {
        return None;
    }
    let mut off = 0usize;
    let mut tiles = Vec::new();
    while off < b.len() {
        if off + 4 > b.len() {
            return None;
        }
        let l = 4 * (be16(b, off + 2) + 1);
        if off + l > b.len() {
            return None;
        }
        tiles.push((off, l));
        off += l;
    }
    Some(tiles)
}

/// What two iteration items are compared by: the Debug rendering (Packet has no PartialEq).
/// For a packet of more than 4 KiB that rendering costs milliseconds, so such items are
/// compared by variant and header fields instead.
fn render(r: &Result<Packet<'_>, RtcpParseError>) -> u64 {
    macro_rules! big {
        ($tag:expr, $p:expr) => {
            if $p.length() > 4096 {
                return fnv1a(FNV_INIT ^ $tag, &[$p.version() as u64, $p.type_() as u64, $p.count() as u64, $p.length() as u64].iter().flat_map(|x| x.to_le_bytes()).collect::<Vec<u8>>());
            }
        };
    }
    if let Ok(p) = r {
        match p {
            Packet::Sr(x) => big!(1, x),
            Packet::Rr(x) => big!(2, x),
            Packet::Sdes(x) => big!(3, x),
            Packet::Bye(x) => big!(4, x),
            Packet::App(x) => big!(5, x),
            Packet::TransportFeedback(x) => big!(6, x),
            Packet::PayloadFeedback(x) => big!(7, x),
            Packet::Unknown(x) => big!(8, x),
        }
    }
    fnv1a(FNV_INIT, format!("{r:?}").as_bytes())
}

/// Expected iteration: Packet::parse of each tile in order, stopping after the first error.
fn expected_sequence(b: &[u8], tiles: &[(usize, usize)]) -> Vec<(u64, bool)> {
    let mut out = Vec::new();
    for (o, l) in tiles {
        let r = Packet::parse(&b[*o..*o + *l]);
        let is_err = r.is_err();
        out.push((render(&r), is_err));
        if is_err {
            break;
        }
    }
    out
}

pub struct Verdict {
    pub accepted: bool,
    pub tiles: usize,
    pub err_at: Option<usize>,
    pub violation: Option<(String, String)>,
    pub events: u64,
}

fn judge_inner(b: &[u8], t: &mut Tape, log: &mut Option<&mut Vec<String>>) -> Result<Verdict, ()> {
    let reference = reference_tiling(b);
    let mut v = Verdict { accepted: false, tiles: reference.as_ref().map(|t| t.len()).unwrap_or(0), err_at: None, violation: None, events: 1 };
    // stage 1: acceptance.  A call that unwinds has not accepted: for an input the length chain
    // partitions that is this property's violation; for any other input it is C01's finding.
    let parsed = match guarded(|| Compound::parse(b)) {
        Ok(r) => r,
        Err(p) => {
            // Compound::parse decides acceptance; unwinding decides nothing.  For an input the length
            // chain partitions this contradicts the statement outright; for any other input the
            // statement wants it turned down, which an unwind is not either.
            v.violation = Some(match &reference {
                Some(tl) => ("Accept:tileable_not_accepted".into(), format!("Compound::parse unwound ({} at {}) on {} bytes that the length chain partitions into {} packets", p.msg, p.short_loc(), b.len(), tl.len())),
                None => ("Accept:undecided".into(), format!("Compound::parse neither accepted nor rejected {} bytes: it unwound ({} at {})", b.len(), p.msg, p.short_loc())),
            });
            return Ok(v);
        }
    };
    v.accepted = parsed.is_ok();
    if let Some(l) = log.as_mut() {
        l.push(format!("Compound::parse({} bytes) -> {}; reference tiler: {:?}", b.len(), if v.accepted { "Ok" } else { "Err" }, reference.as_ref().map(|t| t.len())));
    }
    match (&parsed, &reference) {
        (Ok(_), None) => {
            v.violation = Some(("Accept:untileable_accepted".into(), format!("Compound::parse accepted {} bytes that the length chain does not partition", b.len())));
            return Ok(v);
        }
        (Err(e), Some(tl)) => {
            v.violation = Some(("Accept:tileable_rejected".into(), format!("Compound::parse rejected {} bytes ({e:?}) although the length chain partitions them into {} packets", b.len(), tl.len())));
            return Ok(v);
        }
        (Err(_), None) => return Ok(v),
        _ => {}
    }
    let tiles = reference.unwrap();
    // stage 2: the per-tile oracle.  If Packet::parse itself unwinds on a tile the expected
    // sequence is undefined (C01's finding): inconclusive.
    let want = guarded(|| expected_sequence(b, &tiles)).map_err(|_| ())?;
    v.err_at = want.iter().position(|w| w.1);
    // stage 3: reader histories.  Packet::parse returned normally on every tile the iterator
    // has to visit, so an unwind here means the iterator did not yield what it must.
    let it = parsed.unwrap();
    match guarded(|| judge_histories(b, it, &tiles, &want, t, log, &mut v)) {
        Ok(()) => {}
        Err(p) => {
            v.violation = Some(("Iter:unwound".into(), format!("iterating an accepted compound unwound ({} at {}) although Packet::parse returns normally on each of its tiles", p.msg, p.short_loc())));
        }
    }
    Ok(v)
}

fn judge_histories<'a>(b: &'a [u8], mut it: Compound<'a>, tiles: &[(usize, usize)], want: &[(u64, bool)], t: &mut Tape, log: &mut Option<&mut Vec<String>>, v: &mut Verdict) {
    // history 1: next() x (items + 0..5 extra)
    let extra = t.choose(6);
    let mut got = Vec::new();
    let mut steps = 0usize;
    loop {
        steps += 1;
        v.events += 1;
        match it.next() {
            Some(r) => {
                got.push(render(&r));
                if got.len() > tiles.len() {
                    v.violation = Some(("Iter:more_items_than_tiles".into(), format!("the iterator yielded {} items for {} tiles", got.len(), tiles.len())));
                    return;
                }
            }
            None => break,
        }
        if steps > tiles.len() + 8 {
            break;
        }
    }
    if let Some(l) = log.as_mut() {
        l.push(format!("next() x{} -> {} items, expected {}", steps, got.len(), want.len()));
    }
    for k in 0..got.len().min(want.len()) {
        if got[k] != want[k].0 {
            v.violation = Some(("Iter:item_differs".into(), format!("item {k} differs from Packet::parse of tile {k} (offset {}, {} bytes)", tiles[k].0, tiles[k].1)));
            return;
        }
    }
    if got.len() < want.len() {
        v.violation = Some(("Iter:stopped_early".into(), format!("the iterator yielded {} items, expected {}", got.len(), want.len())));
        return;
    }
    if got.len() > want.len() {
        v.violation = Some(("Iter:continued_after_error".into(), format!("the iterator yielded {} items but tile {} fails to parse and must be the last one yielded", got.len(), want.len() - 1)));
        return;
    }
    for k in 0..extra {
        v.events += 1;
        if it.next().is_some() {
            v.violation = Some(("Iter:some_after_end".into(), format!("next() call {} after the end returned an item again", k + 1)));
            return;
        }
    }

    // history 2: two independently parsed iterators advanced in a tape-chosen interleaving
    if t.choose(2) == 1 {
        let (mut a, mut c) = (Compound::parse(b).unwrap(), Compound::parse(b).unwrap());
        let (mut ga, mut gc) = (Vec::new(), Vec::new());
        let (mut da, mut dc) = (0usize, 0usize); // Nones seen
        let mut guard_steps = 0;
        while (da < 2 || dc < 2) && guard_steps < 4 * tiles.len() + 16 {
            guard_steps += 1;
            v.events += 1;
            let pick_a = if da >= 2 {
                false
            } else if dc >= 2 {
                true
            } else {
                t.choose(2) == 0
            };
            if pick_a {
                match a.next() {
                    Some(r) => {
                        if da > 0 {
                            v.violation = Some(("Iter:some_after_end".into(), "interleaved iterator A yielded after returning None".into()));
                            return;
                        }
                        ga.push(render(&r))
                    }
                    None => da += 1,
                }
            } else {
                match c.next() {
                    Some(r) => {
                        if dc > 0 {
                            v.violation = Some(("Iter:some_after_end".into(), "interleaved iterator B yielded after returning None".into()));
                            return;
                        }
                        gc.push(render(&r))
                    }
                    None => dc += 1,
                }
            }
        }
        let w: Vec<u64> = want.iter().map(|x| x.0).collect();
        if ga != w || gc != w {
            v.violation = Some(("Iter:interleaved_differs".into(), format!("two interleaved iterators yielded {} / {} items, expected {}", ga.len(), gc.len(), w.len())));
            return;
        }
    }

    // history 3: parse again after a partial iteration
    if t.choose(2) == 1 && !want.is_empty() {
        let mut first = Compound::parse(b).unwrap();
        let k = t.choose(want.len() + 1);
        for _ in 0..k {
            v.events += 1;
            let _ = first.next();
        }
        let again: Vec<u64> = Compound::parse(b).unwrap().map(|r| render(&r)).take(tiles.len() + 2).collect();
        let w: Vec<u64> = want.iter().map(|x| x.0).collect();
        if again != w {
            v.violation = Some(("Iter:reparse_differs".into(), "a fresh Compound::parse after a partial iteration iterates differently".into()));
            return;
        }
        // and the partially advanced one finishes with the remaining items
        let rest: Vec<u64> = first.map(|r| render(&r)).take(tiles.len() + 2).collect();
        if rest != w[k.min(w.len())..] {
            v.violation = Some(("Iter:resume_differs".into(), format!("after {k} calls the iterator yielded {} more items, expected {}", rest.len(), w.len() - k.min(w.len()))));
            return;
        }
    }

    // history 4: nth / skip / step_by / count / last / for_each, mixed with next()
    if t.choose(2) == 1 {
        let w: Vec<u64> = want.iter().map(|x| x.0).collect();
        judge_adaptors(b, &w, t, v);
    }

    // history 6: a bystander on the same thread.  Between the calls on our iterator other
    // datagrams are parsed (and walked): one the length chain partitions, one that is turned
    // down only after several whole packets with other boundaries (a damaged datagram, a probe
    // into a payload for a nested compound).  What happens to another datagram is not part of
    // what this one contains.
    if t.choose(4) == 3 {
        const OTHER_OK: &[u8] = &[0x80, 203, 0, 0, 0x81, 203, 0, 1, 0, 0, 0, 7, 0x80, 201, 0, 1, 0, 0, 0, 9];
        const OTHER_BAD: &[u8] = &[
            0x80, 203, 0, 0, 0x80, 203, 0, 0, 0x81, 203, 0, 1, 0, 0, 0, 7, 0x80, 203, 0, 0, 0x80, 201, 0, 1, 0, 0, 0, 9, 0x80, 203, 0, 0, 0x80, 203, 0, 0, 0x80, 204, 0, 9, 1, 2, 3, 4,
        ];
        let w: Vec<u64> = want.iter().map(|x| x.0).collect();
        let mut a = Compound::parse(b).unwrap();
        let mut got: Vec<u64> = Vec::new();
        let mut nones = 0usize;
        let mut steps = 0usize;
        while nones < 2 && steps < tiles.len() + 6 {
            steps += 1;
            v.events += 1;
            match t.choose(4) {
                0 => {}
                1 => {
                    let _ = Compound::parse(OTHER_BAD).is_ok();
                }
                2 => {
                    if let Ok(mut o) = Compound::parse(OTHER_OK) {
                        let _ = o.next().map(|r| r.is_ok());
                    }
                }
                _ => {
                    let _ = Compound::parse(&OTHER_BAD[..OTHER_BAD.len() - 5]).is_ok();
                    let _ = Compound::parse(OTHER_OK).map(|o| o.count());
                }
            }
            match a.next() {
                Some(r) => {
                    if nones > 0 {
                        v.violation = Some(("Iter:some_after_end".into(), "with other datagrams parsed in between, the iterator yielded after returning None".into()));
                        return;
                    }
                    got.push(render(&r));
                }
                None => nones += 1,
            }
        }
        if got != w {
            v.violation = Some(("Iter:beside_differs".into(), format!("with other datagrams parsed between its calls the iterator yielded {} items, expected {} (or an item differs)", got.len(), w.len())));
            return;
        }
    }

    // history 5: the iterator is handed to another thread part-way (a view is `Send`: parse on the
    // I/O thread, process on a worker).  The other thread has a compound of its own, with other
    // boundaries, alive at that moment.  Nothing runs concurrently: the thread is joined at once.
    if t.choose(128) == 127 {
        let w: Vec<u64> = want.iter().map(|x| x.0).collect();
        let mut moved = Compound::parse(b).unwrap();
        let k = t.choose(w.len() + 1);
        for _ in 0..k {
            v.events += 1;
            let _ = moved.next();
        }
        let limit = tiles.len() + 2;
        let joined = std::thread::scope(|sc| {
            sc.spawn(move || {
                const OTHER: &[u8] = &[0x80, 203, 0, 0, 0x81, 203, 0, 1, 0, 0, 0, 7, 0x80, 201, 0, 1, 0, 0, 0, 9];
                let mut own = Compound::parse(OTHER).ok();
                let first = own.as_mut().and_then(|c| c.next()).map(|r| r.is_ok());
                let rest: Vec<u64> = moved.map(|r| render(&r)).take(limit).collect();
                let more = own.map(|c| c.count());
                (rest, first, more)
            })
            .join()
        });
        match joined {
            Ok((rest, _, _)) => {
                if rest != w[k.min(w.len())..] {
                    v.violation = Some(("Iter:moved_differs".into(), format!("handed to another thread after {k} calls, the iterator yielded {} more items, expected {}", rest.len(), w.len() - k.min(w.len()))));
                }
            }
            Err(_) => {
                v.violation = Some(("Iter:unwound".into(), format!("handed to another thread after {k} calls, iterating the accepted compound unwound although Packet::parse returns normally on each of its tiles")));
            }
        }
    }
}

/// History 4: the other ways of driving an iterator.  `nth`, `skip`, `step_by`, `count`, `last`,
/// `fold` / `for_each` are `Iterator` methods like `next`; by default they are built on `next`,
/// and a type may override them.  Whatever drives the iteration, it must walk the same sequence:
/// the items of the reference tiles up to and including the first error, then nothing.
fn judge_adaptors<'a>(b: &'a [u8], w: &[u64], t: &mut Tape, v: &mut Verdict) {
    let mut it = Compound::parse(b).unwrap();
    let mut pos = 0usize;
    let n_ops = 1 + t.choose(6);
    let bad = |what: String| Some(("Iter:adaptor_differs".to_string(), what));
    for step in 0..n_ops {
        v.events += 1;
        let op = t.choose(8);
        match op {
            0 => {
                let got = it.next().map(|r| render(&r));
                if got != w.get(pos).copied() {
                    v.violation = bad(format!("op {step}: next() at position {pos} of {} differs from the reference sequence", w.len()));
                    return;
                }
                pos = (pos + 1).min(w.len());
            }
            1 | 5 => {
                let k = [0usize, 1, 2, 3, usize::MAX, 1 << 61][t.choose(6)];
                let got = if op == 1 { it.nth(k) } else { it.by_ref().skip(k).next() }.map(|r| render(&r));
                if got != pos.checked_add(k).and_then(|i| w.get(i)).copied() {
                    v.violation = bad(format!("op {step}: {}({k}) at position {pos} of {} differs from the reference sequence", if op == 1 { "nth" } else { "skip(k).next" }, w.len()));
                    return;
                }
                pos = pos.saturating_add(k).saturating_add(1).min(w.len());
            }
            2 => {
                let _ = it.size_hint();
            }
            3 => {
                let got = it.by_ref().count();
                if got != w.len() - pos {
                    v.violation = bad(format!("op {step}: count() at position {pos} returned {got}, the reference sequence has {} items left", w.len() - pos));
                    return;
                }
                pos = w.len();
            }
            4 => {
                let got = it.by_ref().last().map(|r| render(&r));
                let want = if pos < w.len() { w.last().copied() } else { None };
                if got != want {
                    v.violation = bad(format!("op {step}: last() at position {pos} of {} differs from the reference sequence", w.len()));
                    return;
                }
                pos = w.len();
            }
            6 => {
                let k = 1 + t.choose(3);
                let got: Vec<u64> = it.by_ref().step_by(k).take(2).map(|r| render(&r)).collect();
                let want: Vec<u64> = [pos, pos + k].iter().filter_map(|i| w.get(*i).copied()).collect();
                if got != want {
                    v.violation = bad(format!("op {step}: step_by({k}).take(2) at position {pos} yielded {} items, the reference sequence gives {}", got.len(), want.len()));
                    return;
                }
                // (step_by takes the first item with next() and each further one with nth(k-1).)  How
                // many items StepBy consumes behind the last one it yields is its own business:
                // what follows must be a suffix of the reference sequence
                return resync_rest(it, w, v, step);
            }
            _ => {
                let mut got = Vec::new();
                it.by_ref().for_each(|r| got.push(render(&r)));
                if got != w[pos.min(w.len())..] {
                    v.violation = bad(format!("op {step}: for_each at position {pos} visited {} items, the reference sequence has {} left", got.len(), w.len() - pos.min(w.len())));
                    return;
                }
                pos = w.len();
            }
        }
    }
    // a consumer that takes the iterator BY VALUE reaches an overridden `fold` / `count` / `last`
    // (through `by_ref()` only `next`, `nth` and `try_fold` of the type are reachable)
    let left = &w[pos.min(w.len())..];
    match t.choose(4) {
        1 => {
            let got = it.count();
            if got != left.len() {
                v.violation = bad(format!("count() by value at position {pos} returned {got}, the reference sequence has {} items left", left.len()));
            }
            return;
        }
        2 => {
            let got = it.last().map(|r| render(&r));
            if got != left.last().copied() {
                v.violation = bad(format!("last() by value at position {pos} of {} differs from the reference sequence", w.len()));
            }
            return;
        }
        3 => {
            let got = it.fold(Vec::new(), |mut a, r| {
                if a.len() <= w.len() + 2 {
                    a.push(render(&r));
                }
                a
            });
            if got != left {
                v.violation = bad(format!("fold by value at position {pos} visited {} items, the reference sequence has {} left", got.len(), left.len()));
            }
            return;
        }
        _ => {}
    }
    // whatever was consumed, the rest is the rest of the reference sequence and then nothing
    let rest: Vec<u64> = it.by_ref().take(w.len() + 2).map(|r| render(&r)).collect();
    if rest != w[pos.min(w.len())..] {
        v.violation = bad(format!("after the adaptor calls the iterator yielded {} more items, the reference sequence has {} left", rest.len(), w.len() - pos.min(w.len())));
        return;
    }
    if it.next().is_some() {
        v.violation = Some(("Iter:some_after_end".into(), "next() after adaptor-driven exhaustion returned an item again".into()));
    }
}

/// After an adaptor whose consumption count is not specified: what follows must be a suffix of
/// the reference sequence, then nothing.
fn resync_rest(mut it: Compound<'_>, w: &[u64], v: &mut Verdict, step: usize) {
    let rest: Vec<u64> = it.by_ref().take(w.len() + 2).map(|r| render(&r)).collect();
    if rest.len() > w.len() || w[w.len() - rest.len()..] != rest[..] {
        v.violation = Some(("Iter:adaptor_differs".to_string(), format!("op {step}: after step_by the iterator yielded {} items that are not a suffix of the reference sequence", rest.len())));
        return;
    }
    if it.next().is_some() {
        v.violation = Some(("Iter:some_after_end".into(), "next() after adaptor-driven exhaustion returned an item again".into()));
    }
}

pub fn judge(b: &[u8], t: &mut Tape, log: &mut Option<&mut Vec<String>>) -> Result<Verdict, ()> {
    // parsed in place in the worker's reusable receive buffer, over the previous delivery
    crate::arena::deliver_in_place(b, |slice| judge_inner(slice, t, log))
}

fn case_json(d: &[u8], tape: &[u32]) -> J {
    J::obj().set("deliver", hex(d)).set("tape", tape.to_vec())
}

/// With what the receive buffer held before (needed when the violation depends on it).
fn case_json_prev(d: &[u8], tape: &[u32], prev: &[u8]) -> J {
    case_json(d, tape).set("previous", hex(prev))
}

/// A compound datagram: stacked packets, or (one in four) the real CompoundBuilder.
fn gen_compound(r: &mut Rng, cfg: &GenCfg, hash_key: u64) -> Base {
    if r.chance(1, 4) {
        let n = r.range(1, 6);
        let mut members: Vec<Spec> = (0..n).map(|_| gen_packet(r, cfg)).collect();
        let last = members.len() - 1;
        for (i, m) in members.iter_mut().enumerate() {
            if i != last {
                strip_padding(m);
            }
        }
        let spec = Spec::Compound { members };
        if let Some(bytes) = real_bytes(&spec, hash_key) {
            if !bytes.is_empty() {
                return Base { bytes, source: "sender-compound-builder", specs: vec![spec] };
            }
        }
    }
    gen_datagram(r, cfg, 8, hash_key)
}

/// One delivery: judge it, account for it, record a violation.
#[allow(clippy::too_many_arguments)]
fn delivery(seed: u64, idx: u64, ctx: &mut Ctx<'_>, out: &mut Vec<Violation>, tr: &mut Rng, d: &[u8], script: &Script, fired: bool, source: &str, prov: &dyn Fn() -> J) {
    if script.len() != 1 || !matches!(script[0], Fault::Hdr { .. }) || source != "length-field-sweep" {
        for f in script {
            ctx.stats.fault(f.kind_name(), 1);
        }
    }
    let tape_vals: Vec<u32> = (0..72).map(|_| tr.u32()).collect();
    let mut tape = Tape::replaying(tape_vals);
    ctx.stats.evaluations += 1;
    ctx.publish_raw(idx, d, &tape.vals_for_publish());
    let Ok(v) = judge(d, &mut tape, &mut None) else {
        ctx.stats.inconclusive_panics += 1;
        return;
    };
    ctx.stats.events += v.events;
    ctx.stats.count(if v.accepted { "compound_accepted" } else { "compound_rejected" }, 1);
    if let Some(k) = v.err_at {
        ctx.stats.probe(if k == 0 { "accepted_first_tile_fails" } else { "accepted_later_tile_fails" }, 1);
    }
    if v.accepted && v.tiles >= 4 {
        ctx.stats.probe("accepted_with_4_or_more_tiles", 1);
    }
    if v.accepted && d.len() >= 65536 {
        ctx.stats.probe("accepted_64k_or_more", 1);
    }
    let sig = [v.accepted as u64, v.tiles.min(12) as u64, v.err_at.map(|k| k as u64 + 1).unwrap_or(0), script.iter().fold(0u64, |a, f| a * 31 + f.kind() as u64 + 1), (d.len().min(1024) as u64 + 3) / 4];
    ctx.stats.trace_digest ^= fnv1a(seed, &sig.iter().flat_map(|x| x.to_le_bytes()).collect::<Vec<u8>>());
    if fired && d.len() >= 4 {
        ctx.stats.sig(&sig);
    }
    let kind = match (fired, v.accepted) {
        (false, _) => "intact",
        (true, true) => "faulted-accepted",
        (true, false) => "faulted-rejected",
    };
    if ctx.stats.wants_sample(kind, idx) && d.len() <= 160 {
        ctx.stats.sample(kind, idx, || {
            J::obj()
                .set("source", source)
                .set("faults", J::Arr(script.iter().map(|f| f.to_json()).collect()))
                .set("deliver", hex(d))
                .set("accepted", v.accepted)
                .set("reference_tiles", v.tiles)
                .set("first_failing_tile", v.err_at.map(|k| J::from(k)).unwrap_or(J::Null))
        });
    }
    if let Some((class, detail)) = v.violation {
        out.push(Violation { class, detail, episode: idx, case: case_json_prev(d, &tape.rec, &crate::arena::previous()), provenance: prov().set("faults", J::Arr(script.iter().map(|f| f.to_json()).collect())) });
    }
}

impl Check for C11 {
    fn id(&self) -> &'static str {
        "C11"
    }
    fn level(&self) -> &'static str {
        "fault_enumeration"
    }
    fn episodes(&self, tier: Tier) -> u64 {
        match tier {
            Tier::Quick => 150_000,
            Tier::Thorough => 6_000_000,
        }
    }

    /// `Compound::parse` must decide and the iterator must yield: a call that never returns, or
    /// that takes the process down (stack overflow on a long chain), has done neither.
    fn hang_is_violation(&self) -> bool {
        true
    }

    fn run_episode(&self, seed: u64, idx: u64, ctx: &mut Ctx<'_>, out: &mut Vec<Violation>) {
        let mut wl = Rng::derive(seed, "workload");
        let mut fr = Rng::derive(seed, "faults");
        let mut tr = Rng::derive(seed, "tape");
        let hash_key = Rng::derive(seed, "hash").next_u64();
        let gcfg = GenCfg::valid_only(&mut wl);
        let base = gen_compound(&mut wl, &gcfg, hash_key);
        let other = gen_compound(&mut wl, &gcfg, hash_key);
        let mut scripts: Vec<Script> = vec![vec![]];
        scripts.extend(single_faults_compound(&base.bytes));
        scripts.push(vec![Fault::Coalesce { bytes: other.bytes.clone() }]);
        // seeded double faults: two length fields; truncate then coalesce; length + version
        for _ in 0..24 {
            let singles = single_faults_compound(&base.bytes);
            if singles.len() < 2 {
                break;
            }
            let a = singles[fr.below(singles.len())].clone();
            let b = singles[fr.below(singles.len())].clone();
            scripts.push(a.into_iter().chain(b).collect());
        }
        for script in scripts.iter() {
            let (d, fired) = apply_script(&base.bytes, script);
            if !script.is_empty() && !fired {
                continue;
            }
            delivery(seed, idx, ctx, out, &mut tr, &d, script, fired, base.source, &|| base.provenance().set("base", hex(&base.bytes)));
        }
        if idx == crate::lensweep::LONG_CHAIN_EPISODE {
            let chain = crate::lensweep::long_chain();
            ctx.stats.fault("long-chain", 1);
            delivery(seed, idx, ctx, out, &mut tr, &chain, &vec![], true, "long-chain", &|| J::obj().set("source", "2^20 header-only packets"));
            // and the same chain cut inside its last header
            delivery(seed, idx, ctx, out, &mut tr, &chain[..chain.len() - 2], &vec![Fault::Truncate { len: chain.len() - 2 }], true, "long-chain", &|| J::obj().set("source", "2^20 header-only packets, cut"));
        }
        // the 16-bit length field, exhaustively (first SWEEP_EPISODES episodes own 16 values each)
        for v in crate::lensweep::values_for(idx) {
            for fr in crate::lensweep::compound_frames(v) {
                let script: Script = vec![Fault::Hdr { tile: if fr.lead > 0 { 1 } else { 0 }, field: crate::faults::HdrField::Len, val: fr.v }];
                crate::lensweep::with_frame(&fr, |d| {
                    ctx.stats.fault("hdr-length-sweep", 1);
                    delivery(seed, idx, ctx, out, &mut tr, d, &script, true, "length-field-sweep", &|| J::obj().set("source", fr.describe()));
                });
            }
        }
    }

    fn replay(&self, case: &J, mut log: Option<&mut Vec<String>>) -> Result<Option<(String, String)>, String> {
        let (d, tape) = crate::c01::parse_case(case)?;
        // a replay starts from a fixed history, in this process as in a fresh one: a neutral
        // delivery (whatever the code under test remembers of earlier calls now concerns that
        // one), then what the receive buffer held before (parsed there as the earlier delivery was)
        let _ = judge(&[0x80, 203, 0, 0], &mut Tape::canonical(), &mut None);
        if let Ok(prev) = case.str_of("previous").and_then(|h| unhex(h)) {
            if !prev.is_empty() {
                let _ = judge(&prev, &mut Tape::canonical(), &mut None);
            }
        }
        let mut t = Tape::replaying(tape);
        match judge(&d, &mut t, &mut log) {
            Ok(v) => Ok(v.violation),
            Err(()) => Ok(None),
        }
    }

    fn shrink(&self, case: &J) -> Vec<J> {
        let Ok((d, tape)) = crate::c01::parse_case(case) else { return vec![] };
        let prev = case.str_of("previous").ok().and_then(|h| unhex(h).ok()).unwrap_or_default();
        let mk = |d: &[u8], t: &[u32]| if prev.is_empty() { case_json(d, t) } else { case_json_prev(d, t, &prev) };
        let mut out = Vec::new();
        // most violations do not need the previous content of the buffer: try without it first
        if !prev.is_empty() {
            out.push(case_json(&d, &tape));
        }
        for t in shrink_tape(&tape).into_iter().take(3) {
            out.push(mk(&d, &t));
        }
        for b in shrink_bytes(&d) {
            out.push(mk(&b, &tape));
        }
        for t in shrink_tape(&tape).into_iter().skip(3) {
            out.push(mk(&d, &t));
        }
        out
    }

    fn rule(&self) -> String {
        "Per episode one compound datagram of 1-8 members (stacked packets from real builders / foreign encoder, or the real CompoundBuilder); around it: every truncation length, extensions by 1-3 bytes, by 4 zero bytes, by a small RR, by itself and by another compound (coalescing); for every tile: length field in {0, L+-1, L+-2, rest, rest+-1, 0xffff}, version in {0,1,3}, packet type := every other known type, padding bit with zero count, count := 31; plus 24 seeded double faults; once per run a valid chain of 2^20 header-only packets (and the same cut inside its last header); and, in the first 4096 episodes of a run, an exhaustive sweep of the 16-bit length field of one tile (all 65536 values, tile alone / behind / in front of a small packet, real size = announced -4/-1/0/+1/+3/+4). Each delivery: Compound::parse vs. the reference tiler, then tape-driven reader histories (next() x items+0..5 extra, two interleaved iterators, re-parse and resume after partial iteration, and a mix of next / nth / skip / step_by / size_hint / count / last / for_each through by_ref() and by value) vs. Packet::parse per reference tile. evaluations = deliveries. Non-trivial = a fault fired and the delivery is at least 4 bytes; distinct = distinct (accepted?, reference tile count, index of first failing tile, fault-kind sequence, length in words).".into()
    }
    fn assumptions(&self) -> Vec<String> {
        vec![
            "exhaustive in the single-fault dimension per base compound, sampled in bases, double faults and reader histories".into(),
            "deliveries are parsed in place in one reusable receive buffer per worker, over the previous delivery; a reported case carries that previous content and a replay starts from a fixed call history".into(),
            "a call that never returns or takes the process down is reported as a violation (nothing was decided / yielded); after the run, ./check delivers 2^20-packet chains to an unoptimised (dev profile) build as well".into(),
            "per-tile oracle is Packet::parse on the reference tile, because the property defines iteration in terms of it; items are compared through their Debug rendering (Packet has no PartialEq)".into(),
            "an unwind of Compound::parse itself (it decided nothing), or of the iterator when Packet::parse returns normally on every tile, is a violation here (it did not accept / did not yield); any other unwind is C01's finding and is counted as inconclusive".into(),
        ]
    }
    fn components(&self) -> J {
        J::obj()
            .set("real", J::Arr(vec!["rtcp-types Compound::parse and its Iterator impl, Packet::parse".into(), "rtcp-types builders incl. CompoundBuilder (sender, traffic)".into()]))
            .set("stub", J::Arr(vec!["channel + fault enumerator".into(), "reference tiler (oracle)".into(), "foreign peer RFC encoder (traffic)".into()]))
    }
    fn exhaustive_dimensions(&self) -> Vec<String> {
        vec!["all truncation lengths per base compound".into(), "per tile: the listed length-field, version and packet-type rewrites".into(), "all 65536 values of a tile's length field, once per run".into()]
    }
}
