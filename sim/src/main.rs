//! rtcp-sim: deterministic simulation with fault injection for rtcp-types.
//!
//!   rtcp-sim run <C01|C06|C08|C11|C17|C18|C20> <quick|thorough>
//!   rtcp-sim replay <file>
//!   rtcp-sim digest <id> <episodes>          (determinism self-test helper)
//!
//! Exit status: 0 property held on everything explored (possibly with KNOWN-FINDING lines),
//! 1 violation (a `VIOLATION property=<id> replay=<path>` line was printed), 2 harness error.

mod ambient;
mod arena;
mod c01;
mod c06;
mod c08;
mod c11;
mod c17;
mod c18;
mod c20;
mod enumf;
mod engine;
mod faults;
mod foreign;
mod guard;
mod json;
mod lensweep;
mod prng;
mod realise;
mod receiver;
mod shrinkb;
mod spec;
mod tape;
mod traffic;

use engine::*;
use json::J;
use std::collections::BTreeMap;

fn checks() -> Vec<Box<dyn Check>> {
    vec![Box::new(c01::C01), Box::new(c06::C06), Box::new(c08::C08), Box::new(c11::C11), Box::new(c17::C17), Box::new(c18::C18), Box::new(c20::C20)]
}

fn find(id: &str) -> Option<Box<dyn Check>> {
    checks().into_iter().find(|c| c.id() == id)
}

fn env_u64(k: &str, d: u64) -> u64 {
    std::env::var(k).ok().and_then(|v| v.trim().parse::<u64>().ok()).unwrap_or(d)
}

fn workers() -> usize {
    let d = std::thread::available_parallelism().map(|n| n.get()).unwrap_or(4);
    env_u64("VERIF_WORKERS", d as u64).max(1) as usize
}

fn main() {
    guard::install_hook();
    let args: Vec<String> = std::env::args().collect();
    let code = match args.get(1).map(|s| s.as_str()) {
        // `run` and `replay` execute in a child process, so that a failure that is not an unwind
        // (stack overflow, abort, a signal) still ends in a verdict
        Some("run") if args.len() >= 4 && std::env::var("VERIF_CHILD").is_err() => supervise_run(&args[2], &args[3]),
        Some("replay") if args.len() >= 3 && std::env::var("VERIF_CHILD").is_err() => supervise_replay(&args[2]),
        Some("run") if args.len() >= 4 => cmd_run(&args[2], &args[3]),
        Some("replay") if args.len() >= 3 => cmd_replay(&args[2]),
        // the unoptimised (dev profile) build runs this: deep chains, where a recursion that an
        // optimising build turns into a loop still costs a stack frame per packet
        Some("deep") if args.len() >= 3 && std::env::var("VERIF_CHILD").is_err() => supervise_deep(&args[2], args.get(3).map(|s| s.as_str())),
        Some("deep") if args.len() >= 3 => cmd_deep(args.get(3).map(|s| s.as_str())),
        Some("range") if args.len() >= 6 => cmd_range(&args[2], &args[3], args[4].parse().unwrap_or(0), args[5].parse().unwrap_or(0), args.get(6).map(|s| s.as_str())),
        Some("digest") if args.len() >= 4 => cmd_digest(&args[2], args[3].parse().unwrap_or(1000)),
        _ => {
            eprintln!("usage: rtcp-sim run <id> <quick|thorough> | replay <file> | digest <id> <episodes>");
            2
        }
    };
    std::process::exit(code);
}

/// Exit status of a child: Ok(code) for a normal exit, Err(description) when it was killed.
fn child_status(args: &[&str]) -> Result<i32, String> {
    let exe = std::env::current_exe().map_err(|e| e.to_string())?;
    let st = std::process::Command::new(exe).args(args).env("VERIF_CHILD", "1").status().map_err(|e| e.to_string())?;
    match st.code() {
        Some(c) if (0..=2).contains(&c) => Ok(c),
        Some(c) => Err(format!("exit status {c}")),
        None => {
            #[cfg(unix)]
            {
                use std::os::unix::process::ExitStatusExt;
                Err(format!("signal {}", st.signal().unwrap_or(0)))
            }
            #[cfg(not(unix))]
            Err("killed".to_string())
        }
    }
}

/// Run episodes lo..hi quietly (crash triage); with a journal path, write every delivery out first.
fn cmd_range(id: &str, tier: &str, lo: u64, hi: u64, journal: Option<&str>) -> i32 {
    let Some(check) = find(id) else { return 2 };
    let tier = if tier == "thorough" { Tier::Thorough } else { Tier::Quick };
    let seed = env_u64("VERIF_SEED", 1);
    let file = journal.and_then(|p| std::fs::File::create(p).ok()).map(std::sync::Mutex::new);
    let w = if journal.is_some() { 1 } else { workers() };
    let _ = explore_range(check.as_ref(), seed, tier, lo, hi, w, 600, file.as_ref());
    0
}

fn supervise_run(id: &str, tier: &str) -> i32 {
    match child_status(&["run", id, tier]) {
        Ok(c) => c,
        Err(how) => triage_crash(id, tier, &how),
    }
}

/// The child died without a verdict.  Episodes are deterministic, so the crashing one can be
/// found by bisection over episode ranges, and the crashing delivery inside it from a journal
/// that is written before each delivery is executed.
fn triage_crash(id: &str, tier: &str, how: &str) -> i32 {
    println!("# the simulator process ended abnormally ({how}); locating the episode by bisection");
    let Some(check) = find(id) else { return 2 };
    let t = if tier == "thorough" { Tier::Thorough } else { Tier::Quick };
    let n = env_u64("VERIF_EPISODES", check.episodes(t) / env_u64("VERIF_EPISODE_DIV", 1).max(1));
    let crashes = |lo: u64, hi: u64| child_status(&["range", id, tier, &lo.to_string(), &hi.to_string()]).is_err();
    // grow a prefix until it crashes (the first crashing episode usually has a low index)
    let (mut lo, mut hi) = (0u64, 64u64.min(n));
    while !crashes(0, hi) {
        if hi >= n {
            println!("# harness error: the abnormal end did not reproduce when the episodes were re-run");
            return 2;
        }
        lo = hi;
        hi = (hi * 4).min(n);
    }
    // invariant: [0, lo) runs clean, [0, hi) crashes
    while hi - lo > 1 {
        let mid = lo + (hi - lo) / 2;
        if crashes(lo, mid) {
            hi = mid;
        } else {
            lo = mid;
        }
    }
    let episode = lo;
    let journal = format!("{}/{}-crash-journal-{}.jsonl", replay_dir(), id, std::process::id());
    let _ = std::fs::create_dir_all(replay_dir());
    let again = child_status(&["range", id, tier, &episode.to_string(), &(episode + 1).to_string(), &journal]);
    let last = std::fs::read_to_string(&journal).ok().and_then(|t| t.lines().last().map(|l| l.to_string()));
    let _ = std::fs::remove_file(&journal);
    let (Err(how2), Some(line)) = (again, last) else {
        println!("# harness error: episode {episode} of {id} ends the process abnormally ({how}) but published no delivery to report");
        return 2;
    };
    let Ok(j) = J::parse(&line) else {
        println!("# harness error: unreadable crash journal");
        return 2;
    };
    let bytes = j.str_of("deliver").ok().and_then(|h| json::unhex(h).ok()).unwrap_or_default();
    let tape: Vec<u32> = j.arr_of("tape").map(|a| a.iter().filter_map(|v| v.as_u64().map(|x| x as u32)).collect()).unwrap_or_default();
    let case = check.raw_case(&bytes, &tape);
    let seed = env_u64("VERIF_SEED", 1);
    let file = J::obj()
        .set("format", 1)
        .set("property", id)
        .set("verif_seed", seed)
        .set("episode", episode)
        .set("minimised", false)
        .set("violation", J::obj().set("class", "Crash").set("detail", format!("the process executing this delivery ended abnormally ({how2}): a failure that is not an unwind (stack overflow, abort)")))
        .set("case", case);
    let path = write_replay(id, seed, &file);
    if check.hang_is_violation() {
        println!("VIOLATION property={id} replay={path}");
        println!("#   class=Crash episode={episode} detail=the process executing this delivery ended abnormally ({how2})");
        println!("# verdict: VIOLATION (crash)");
        1
    } else {
        println!("# harness error: a call into rtcp-types ended the process abnormally ({how2}); that is property C01's concern, this check cannot continue (case written to {path})");
        2
    }
}

/// The deliveries of the deep step: a million header-only packets, valid all the way and with a
/// zero tail; or the delivery of a replay file.
fn deep_inputs(file: Option<&str>) -> Vec<Vec<u8>> {
    if let Some(path) = file {
        let bytes = std::fs::read_to_string(path).ok().and_then(|t| J::parse(&t).ok()).and_then(|j| j.obj_of("case").ok().and_then(|c| c.str_of("deliver").ok().and_then(|h| json::unhex(h).ok())));
        return bytes.into_iter().collect();
    }
    let chain = lensweep::long_chain();
    let mut zero_tail = vec![0u8; 4 << 20];
    zero_tail[..4].copy_from_slice(&[0x80, 203, 0, 0]);
    vec![chain, zero_tail]
}

/// What the deep step does with a delivery: decide acceptance, walk the iterator in the ways a
/// caller can, touch each item.  No oracle besides "returns normally": the release build judges
/// the values.
fn cmd_deep(file: Option<&str>) -> i32 {
    use rtcp_types::prelude::*;
    use rtcp_types::{Compound, Packet};
    let file_owned = file.map(|s| s.to_string());
    let run = move || {
        for d in deep_inputs(file_owned.as_deref()) {
            if let Ok(c) = Compound::parse(&d) {
                let mut n = 0usize;
                for item in c {
                    n += 1;
                    if let Ok(p) = item {
                        if let Packet::Bye(b) = &p {
                            let _ = b.ssrcs().count();
                            let _ = b.length();
                        }
                    } else {
                        break;
                    }
                    if n > (1 << 21) {
                        break;
                    }
                }
                let _ = Compound::parse(&d).map(|c| c.count());
                let _ = Compound::parse(&d).map(|c| c.last().is_some());
                let _ = Compound::parse(&d).map(|mut c| c.nth(1 << 19).is_some());
                let _ = Compound::parse(&d).map(|c| format!("{c:?}").len());
            }
            let _ = Packet::parse(&d).is_ok();
            // the FCI parsers called directly on the body, and their iterators walked to the end:
            // a million zero entries (every per-entry cost, a stack frame included, a million times)
            if d.len() > 12 {
                use rtcp_types::{Fir, Nack, Sli};
                let body = &d[12..];
                if let Ok(f) = <Sli as FciParser>::parse(body) {
                    let _ = f.lost_macroblocks().take(5 * body.len() + 32).count();
                }
                if let Ok(f) = <Nack as FciParser>::parse(body) {
                    let _ = f.entries().take(5 * body.len() + 32).count();
                }
                if let Ok(f) = <Fir as FciParser>::parse(body) {
                    let _ = f.entries().take(5 * body.len() + 32).count();
                }
            }
            // a maximum-size SDES whose body is zeros (chunk walk, null-octet skipping)
            if d.len() >= 262144 && d[4] == 0 {
                let mut sd = d[..262144].to_vec();
                sd[..4].copy_from_slice(&[0x81, 202, 0xff, 0xff]);
                if let Ok(p) = rtcp_types::Sdes::parse(&sd) {
                    let _ = p.chunks().take(5 * sd.len()).count();
                }
            }
        }
    };
    // the stack a main thread gets by default on Linux
    match std::thread::Builder::new().stack_size(8 << 20).spawn(run) {
        Ok(h) => {
            if h.join().is_err() {
                // an unwind is the release build's business (it sees the same one and reports it)
                return 0;
            }
            0
        }
        Err(_) => 2,
    }
}

fn supervise_deep(id: &str, file: Option<&str>) -> i32 {
    let mut args = vec!["deep", id];
    if let Some(f) = file {
        args.push(f);
    }
    match child_status(&args) {
        Ok(c) => c,
        Err(how) => {
            let Some(check) = find(id) else { return 2 };
            let path = match file {
                Some(f) => f.to_string(),
                None => {
                    // which of the two deliveries: re-run each alone through a one-delivery replay file
                    let seed = env_u64("VERIF_SEED", 1);
                    let mut found = None;
                    for d in deep_inputs(None) {
                        let f = J::obj()
                            .set("format", 1)
                            .set("property", id)
                            .set("verif_seed", seed)
                            .set("episode", lensweep::LONG_CHAIN_EPISODE)
                            .set("minimised", false)
                            .set("profile", "dev")
                            .set("violation", J::obj().set("class", "Crash").set("detail", format!("an unoptimised (dev profile, opt-level 0) build ends abnormally ({how}) on this delivery: a failure that is not an unwind, e.g. one stack frame per packet")))
                            .set("case", check.raw_case(&d, &[]));
                        let p = write_replay(id, seed, &f);
                        if child_status(&["deep", id, &p]).is_err() {
                            found = Some(p);
                            break;
                        }
                        let _ = std::fs::remove_file(&p);
                    }
                    match found {
                        Some(p) => p,
                        None => {
                            println!("# harness error: the deep step ended abnormally ({how}) but neither delivery reproduces it alone");
                            return 2;
                        }
                    }
                }
            };
            if check.hang_is_violation() {
                println!("VIOLATION property={id} replay={path}");
                println!("#   class=Crash detail=an unoptimised (dev profile) build ends abnormally ({how}) on this delivery");
                println!("# verdict: VIOLATION (crash in the dev-profile deep step)");
                1
            } else {
                println!("# harness error: the deep step ended abnormally ({how}) (case written to {path})");
                2
            }
        }
    }
}

fn supervise_replay(path: &str) -> i32 {
    match child_status(&["replay", path]) {
        Ok(c) => c,
        Err(how) => {
            let id = std::fs::read_to_string(path).ok().and_then(|t| J::parse(&t).ok()).and_then(|j| j.str_of("property").ok().map(|s| s.to_string())).unwrap_or_default();
            match find(&id) {
                Some(c) if c.hang_is_violation() => {
                    println!("VIOLATION property={id} replay={path}");
                    println!("#   class=Crash detail=the process replaying this case ended abnormally ({how})");
                    1
                }
                _ => {
                    println!("# harness error: the process replaying {path} ended abnormally ({how})");
                    2
                }
            }
        }
    }
}

fn cmd_digest(id: &str, n: u64) -> i32 {
    let Some(check) = find(id) else {
        eprintln!("unknown property {id}");
        return 2;
    };
    let seed = env_u64("VERIF_SEED", 1);
    let out = explore(check.as_ref(), seed, Tier::Quick, n, workers(), 120);
    println!(
        "digest property={} seed={} episodes={} evaluations={} events={} distinct={} trace_digest={:016x} violations={}",
        id,
        seed,
        out.stats.episodes,
        out.stats.evaluations,
        out.stats.events,
        out.stats.sigs.len(),
        out.stats.trace_digest,
        out.violations.len()
    );
    0
}

fn cmd_run(id: &str, tier: &str) -> i32 {
    let Some(check) = find(id) else {
        eprintln!("unknown property {id}");
        return 2;
    };
    let tier = match tier {
        "quick" => Tier::Quick,
        "thorough" => Tier::Thorough,
        _ => {
            eprintln!("tier must be quick or thorough");
            return 2;
        }
    };
    let seed = env_u64("VERIF_SEED", 1);
    // VERIF_EPISODE_DIV: the repeat on the plain-release build runs the first part of the episodes
    let n = env_u64("VERIF_EPISODES", check.episodes(tier) / env_u64("VERIF_EPISODE_DIV", 1).max(1));
    let w = workers();
    println!("# {} {} seed={} episodes={} workers={} profile={}", id, tier.name(), seed, n, w, std::env::var("VERIF_PROFILE").unwrap_or_else(|_| "checked".into()));
    let known = match load_known(&std::env::var("VERIF_KNOWN").unwrap_or_else(|_| "/verif/known_findings.json".into())) {
        Ok(k) => k,
        Err(e) => {
            println!("# harness error: known_findings.json: {e}");
            return 2;
        }
    };
    let hang_secs = env_u64("VERIF_HANG_SECS", if tier == Tier::Quick { 20 } else { 60 });
    let out = explore(check.as_ref(), seed, tier, n, w, hang_secs);
    println!(
        "# explored episodes={} evaluations={} logical_events={} distinct_nontrivial={} wall={:.1}s",
        out.stats.episodes,
        out.stats.evaluations,
        out.stats.events,
        out.stats.sigs.len(),
        out.wall.as_secs_f64()
    );

    // one report per violation class, lowest episode first
    let mut by_class: BTreeMap<String, &Violation> = BTreeMap::new();
    let mut order: Vec<String> = Vec::new();
    for v in &out.violations {
        if !by_class.contains_key(&v.class) {
            by_class.insert(v.class.clone(), v);
            order.push(v.class.clone());
        }
    }
    let mut known_hits: BTreeMap<String, u64> = BTreeMap::new();
    let mut reported = 0usize;
    let mut harness_error = false;
    let mut seen_final: Vec<String> = Vec::new();
    for class0 in order.iter() {
        let v = by_class[class0];
        if reported >= 5 {
            break;
        }
        // minimise first: the class of the minimised case is what is reported and what a
        // known finding is matched against
        let (min_case, spent) = minimise(check.as_ref(), &v.case, class0, 4000);
        let mut log = Vec::new();
        let (class, detail) = match check.replay(&min_case, Some(&mut log)) {
            Ok(Some((c, d))) => (c, d),
            other => {
                // the violation seen during exploration does not follow from its own case alone:
                // it may depend on what earlier calls left behind in the process
                if let Some(path) = history_fallback(check.as_ref(), tier, seed, v) {
                    println!("VIOLATION property={} replay={}", id, path);
                    println!("#   class={} episode={} detail={} [process history]", v.class, v.episode, v.detail);
                    reported += 1;
                    continue;
                }
                println!("# harness error: minimised case of class {class0} (episode {}) no longer violates in-process: {other:?}", v.episode);
                harness_error = true;
                continue;
            }
        };
        if seen_final.contains(&class) {
            continue;
        }
        seen_final.push(class.clone());
        if let Some(k) = known.iter().find(|k| k.property == id && k.class == class) {
            let n = out.violations.iter().filter(|x| check.same_class(&x.class, &class)).count() as u64;
            println!("KNOWN-FINDING: property={} {} [{}] ({} occurrences)", id, k.what, k.id, n);
            known_hits.insert(k.id.clone(), n);
            continue;
        }
        let file = J::obj()
            .set("format", 1)
            .set("property", id)
            .set("verif_seed", seed)
            .set("episode", v.episode)
            .set("minimised", true)
            .set("minimiser_replays", spent)
            .set("violation", J::obj().set("class", class.as_str()).set("detail", detail.as_str()))
            .set("case", min_case)
            .set("original_case", v.case.clone())
            .set("provenance", v.provenance.clone())
            .set("trace", J::Arr(log.into_iter().take(400).map(J::from).collect()));
        let path = write_replay(id, seed, &file);
        // the minimised file must reproduce in a fresh process before it is reported
        match fresh_replay(&path) {
            Some((1, c)) if c == class => {
                println!("VIOLATION property={} replay={}", id, path);
                println!("#   class={} episode={} detail={}", class, v.episode, detail);
                reported += 1;
            }
            other => {
                let _ = std::fs::remove_file(&path);
                if let Some(hpath) = history_fallback(check.as_ref(), tier, seed, v) {
                    println!("VIOLATION property={} replay={}", id, hpath);
                    println!("#   class={} episode={} detail={} [process history]", v.class, v.episode, v.detail);
                    reported += 1;
                } else {
                    println!("# harness error: replay of {path} did not reproduce class {class} in a fresh process (got {other:?})");
                    harness_error = true;
                }
            }
        }
    }
    let evidence_path = format!("{}/{}.json", std::env::var("VERIF_EVIDENCE_DIR").unwrap_or_else(|_| "/verif/evidence".into()), id);
    write_evidence(check.as_ref(), tier, seed, &out, reported, &known_hits, &evidence_path);
    if harness_error && reported == 0 {
        println!("# verdict: HARNESS ERROR");
        return 2;
    }
    if reported > 0 {
        if harness_error {
            // every reported file reproduced in a fresh process; classes that did not are left out
            println!("# note: some violation classes seen during exploration could not be reproduced and are not reported");
        }
        println!("# verdict: VIOLATION ({reported} class(es))");
        1
    } else {
        println!("# verdict: held on everything explored");
        0
    }
}

/// A violation that its explicit case does not reproduce in a fresh process may depend on state
/// that earlier calls left behind in the process (a static, a thread-local, a lazily initialised
/// table).  Episodes are deterministic, so the history that matters is a range of episodes run in
/// order on one thread: find the shortest suffix ending at the violating episode that reproduces
/// the class in a fresh process, and report that range as the replay file.
fn history_fallback(check: &dyn Check, tier: Tier, seed: u64, v: &Violation) -> Option<String> {
    let id = check.id();
    let k = v.episode;
    let started = std::time::Instant::now();
    let mut back = 0u64;
    loop {
        let lo = k.saturating_sub(back);
        let file = J::obj()
            .set("format", 1)
            .set("property", id)
            .set("verif_seed", seed)
            .set("episode", k)
            .set("minimised", false)
            .set("history", J::obj().set("tier", tier.name()).set("from", lo).set("to", k).set("workers", 1u64))
            .set(
                "violation",
                J::obj().set("class", v.class.as_str()).set("detail", format!("{} -- not reproduced by the case alone: it depends on what earlier calls left behind in the process; replay re-runs episodes {lo}..={k} in order on one thread of a fresh process", v.detail)),
            )
            .set("case", v.case.clone())
            .set("provenance", v.provenance.clone());
        let path = write_replay(id, seed, &file);
        if let Some((1, c)) = fresh_replay(&path) {
            if check.same_class(&c, &v.class) {
                return Some(path);
            }
        }
        let _ = std::fs::remove_file(&path);
        if lo == 0 || started.elapsed().as_secs() > 600 {
            return None;
        }
        back = back * 2 + 1;
    }
}

/// Replay of a process-history file: the recorded episode range, in order, on one thread.
fn replay_history(check: &dyn Check, file: &J, path: &str) -> i32 {
    let id = check.id();
    let Ok(h) = file.obj_of("history") else { return 2 };
    let num = |k: &str| h.get(k).and_then(|v| v.as_u64());
    let (Some(from), Some(to)) = (num("from"), num("to")) else {
        println!("# harness error: {path}: history without from/to");
        return 2;
    };
    let tier = if h.str_of("tier").map(|t| t == "thorough").unwrap_or(false) { Tier::Thorough } else { Tier::Quick };
    let seed = file.get("verif_seed").and_then(|v| v.as_u64()).unwrap_or(1);
    let want = file.obj_of("violation").ok().and_then(|v| v.str_of("class").ok().map(|s| s.to_string())).unwrap_or_default();
    let out = explore_range(check, seed, tier, from, to + 1, 1, env_u64("VERIF_HANG_SECS", 60), None);
    match out.violations.iter().find(|x| want.is_empty() || check.same_class(&x.class, &want)) {
        Some(x) => {
            println!("VIOLATION property={} replay={}", id, path);
            println!("#   class={} detail=episode {} of the history {}..={}: {}", x.class, x.episode, from, to, x.detail);
            1
        }
        None => {
            println!("# replay of {path}: property {id} holds on this history ({} episodes)", to + 1 - from);
            0
        }
    }
}

fn fresh_replay(path: &str) -> Option<(i32, String)> {
    let exe = std::env::current_exe().ok()?;
    let out = std::process::Command::new(exe).args(["replay", path]).output().ok()?;
    let text = String::from_utf8_lossy(&out.stdout).to_string();
    let class = text.lines().find_map(|l| l.strip_prefix("#   class=").map(|s| s.split(' ').next().unwrap_or("").to_string())).unwrap_or_default();
    Some((out.status.code().unwrap_or(2), class))
}

fn cmd_replay(path: &str) -> i32 {
    let text = match std::fs::read_to_string(path) {
        Ok(t) => t,
        Err(e) => {
            println!("# harness error: cannot read {path}: {e}");
            return 2;
        }
    };
    let file = match J::parse(&text) {
        Ok(j) => j,
        Err(e) => {
            println!("# harness error: {path}: {e}");
            return 2;
        }
    };
    let (id, case) = match (file.str_of("property"), file.obj_of("case")) {
        (Ok(i), Ok(c)) => (i.to_string(), c.clone()),
        _ => {
            println!("# harness error: {path}: missing property/case");
            return 2;
        }
    };
    let Some(check) = find(&id) else {
        println!("# harness error: unknown property {id}");
        return 2;
    };
    if file.get("history").is_some() {
        return replay_history(check.as_ref(), &file, path);
    }
    // run the case on a thread so that a hang can be reported
    let hang_secs = env_u64("VERIF_HANG_SECS", 60);
    let (tx, rx) = std::sync::mpsc::channel();
    let id2 = id.clone();
    std::thread::Builder::new()
        .stack_size(8 << 20)
        .spawn(move || {
            let check = find(&id2).unwrap();
            let mut log = Vec::new();
            let r = check.replay(&case, Some(&mut log));
            let _ = tx.send((r, log));
        })
        .expect("spawn");
    // poll so that a case that allocates without bound is reported before memory runs out
    let started = std::time::Instant::now();
    let got = loop {
        match rx.recv_timeout(std::time::Duration::from_millis(100)) {
            Ok(v) => break Ok(v),
            Err(_) => {
                if started.elapsed().as_secs() >= hang_secs || engine::rss_over_limit() {
                    break Err(());
                }
            }
        }
    };
    match got {
        Ok((Ok(Some((class, detail))), log)) => {
            for l in log.iter().rev().take(8).rev() {
                println!("#   op {l}");
            }
            println!("VIOLATION property={} replay={}", id, path);
            println!("#   class={} detail={}", class, detail);
            1
        }
        Ok((Ok(None), _)) => {
            println!("# replay of {path}: property {id} holds on this case");
            0
        }
        Ok((Err(e), _)) => {
            println!("# harness error: {path}: {e}");
            2
        }
        Err(_) => {
            if check.hang_is_violation() {
                println!("VIOLATION property={} replay={}", id, path);
                println!("#   class=Hang detail=the call did not return within {hang_secs}s");
                1
            } else {
                println!("# harness error: replay did not return within {hang_secs}s");
                2
            }
        }
    }
}
