//! The receiver node: REAL parsers of rtcp-types plus a tape-driven read-out history over
//! every public accessor, conversion and iterator of whatever they return.

use crate::faults::tiles;
use crate::guard::{guarded, PanicInfo};
use crate::prng::{fnv1a, FNV_INIT};
use crate::tape::Tape;
use rtcp_types::prelude::*;
use rtcp_types::*;

pub const ENTRY_NAMES: [&str; 16] =
    ["Compound", "Packet", "App", "Bye", "Rr", "Sdes", "Sr", "Tfb", "Pfb", "Unknown", "ReportBlock", "Nack", "Fir", "Sli", "Rpsi", "Pli"];

pub const PROBE_NAMES: [&str; 12] = [
    "accepted_padding_count_gt_body",
    "input_priv_prefix_len_ge_item_len",
    "fci_parser_accepted_len_not_multiple_of_4",
    "compound_accepted_with_failing_later_tile",
    "sdes_accepted_with_3_or_more_chunks",
    "accepted_input_over_64k",
    "iterator_yielded_17_or_more",
    "sdes_chunk_ssrc_leading_zero_accepted",
    "priv_item_accepted",
    "two_iterators_interleaved",
    "deliveries_with_bystander_traffic",
    "deliveries_after_a_caught_writer_panic",
];

#[derive(Clone, Debug)]
pub enum FailKind {
    Panic,
    IterBound,
    IterUnstable,
}

#[derive(Clone, Debug)]
pub struct Fail {
    pub kind: FailKind,
    pub op: &'static str,
    pub detail: String,
}

impl Fail {
    pub fn class(&self) -> String {
        format!("{:?}@{}", self.kind, self.op)
    }
}

pub struct Obs {
    pub hash: u64,
    pub log: Option<Vec<String>>,
    pub cur: &'static str,
    pub events: u64,
    pub fail: Option<Fail>,
    pub accepted: u32,
    pub probes: [u64; 12],
    pub iter_bound: usize,
    /// a bystander: other, well-formed packets are parsed and read on the same thread between the
    /// calls of this delivery's read-out (what a receiver handling two sessions does)
    pub beside: bool,
}

impl Obs {
    pub fn new(log: bool) -> Obs {
        Obs { hash: FNV_INIT, log: if log { Some(Vec::new()) } else { None }, cur: "", events: 0, fail: None, accepted: 0, probes: [0; 12], iter_bound: 32, beside: false }
    }
    #[inline]
    pub fn op(&mut self, name: &'static str) {
        self.cur = name;
        self.events += 1;
        self.hash = fnv1a(self.hash, name.as_bytes());
        if let Some(l) = self.log.as_mut() {
            if l.len() < 4000 {
                l.push(name.to_string());
            }
        }
    }
    #[inline]
    pub fn res(&mut self, v: u64) {
        self.hash = fnv1a(self.hash, &v.to_le_bytes());
    }
    pub fn note(&mut self, s: impl FnOnce() -> String) {
        if let Some(l) = self.log.as_mut() {
            if l.len() < 4000 {
                l.push(s());
            }
        }
    }
    fn set_fail(&mut self, kind: FailKind, op: &'static str, detail: String) {
        if self.fail.is_none() {
            self.fail = Some(Fail { kind, op, detail });
        }
    }
}

// ---------------------------------------------------------------------------------------
// bystander traffic: fixed well-formed packets of every kind, with a geometry (size, count,
// padding) unlike most generated ones
// ---------------------------------------------------------------------------------------

const BY_APP: &[u8] = &[0xa1, 204, 0, 4, 0, 0, 0, 1, b'n', b'a', b'm', b'e', 1, 2, 3, 4, 0, 0, 0, 4];
const BY_BYE: &[u8] = &[0x82, 203, 0, 3, 0, 0, 0, 1, 0, 0, 0, 2, 2, b'o', b'k', 0];
const BY_RR: &[u8] = &[0x81, 201, 0, 7, 0, 0, 0, 9, 0, 0, 0, 1, 2, 0, 0, 3, 0, 0, 0, 4, 0, 0, 0, 5, 0, 0, 0, 6, 0, 0, 0, 7];
const BY_SR: &[u8] = &[
    0x81, 200, 0, 12, 0, 0, 0, 9, 1, 1, 1, 1, 2, 2, 2, 2, 0, 0, 0, 3, 0, 0, 0, 4, 0, 0, 0, 5, 0, 0, 0, 1, 2, 0, 0, 3, 0, 0, 0, 4, 0, 0, 0, 5, 0, 0, 0, 6, 0, 0, 0, 7,
];
const BY_SDES: &[u8] = &[0x81, 202, 0, 3, 0, 0, 0, 9, 1, 3, b'a', b'b', b'c', 0, 0, 0];
const BY_TFB: &[u8] = &[0x81, 205, 0, 3, 0, 0, 0, 1, 0, 0, 0, 2, 0, 10, 0, 5];
const BY_PFB: &[u8] = &[0x82, 206, 0, 3, 0, 0, 0, 1, 0, 0, 0, 2, 0, 0x28, 0, 0x41];
const BY_UNK: &[u8] = &[0x80, 210, 0, 1, 1, 2, 3, 4];
const BY_COMPOUND: &[u8] = &[
    0x81, 201, 0, 7, 0, 0, 0, 9, 0, 0, 0, 1, 2, 0, 0, 3, 0, 0, 0, 4, 0, 0, 0, 5, 0, 0, 0, 6, 0, 0, 0, 7, 0x82, 203, 0, 3, 0, 0, 0, 1, 0, 0, 0, 2, 2, b'o', b'k', 0,
];

fn beside_parse<'a, P: RtcpPacketParser<'a>>(o: &Obs, b: &'a [u8]) {
    crate::ambient::tick();
    if !o.beside {
        return;
    }
    if let Ok(p) = P::parse(b) {
        let _ = (p.length(), p.count(), p.header_data());
    }
    let _ = Packet::parse(b).is_ok();
}

/// The bystander's packet for the parser with acceptance bit `bit`.
fn beside_bytes(bit: u32) -> &'static [u8] {
    match bit {
        2 => BY_APP,
        3 => BY_BYE,
        4 => BY_RR,
        5 => BY_SDES,
        6 => BY_SR,
        7 => BY_TFB,
        8 => BY_PFB,
        _ => BY_UNK,
    }
}

/// Between two steps of an iterator of ours: the bystander walks its own views.
fn beside_iter(o: &Obs) {
    // also a call boundary for the seeded second party (ambient.rs)
    crate::ambient::tick();
    if !o.beside {
        return;
    }
    if let Ok(mut c) = Compound::parse(BY_COMPOUND) {
        let _ = c.next().map(|r| r.is_ok());
        let _ = c.next().map(|r| r.is_ok());
    }
    if let Ok(s) = Sdes::parse(BY_SDES) {
        for c in s.chunks() {
            for i in c.items() {
                let _ = (i.type_(), i.value().len());
            }
        }
    }
    if let Ok(f) = TransportFeedback::parse(BY_TFB) {
        if let Ok(n) = f.parse_fci::<Nack>() {
            let _ = n.entries().count();
        }
    }
    if let Ok(f) = PayloadFeedback::parse(BY_PFB) {
        if let Ok(n) = f.parse_fci::<Sli>() {
            let _ = n.lost_macroblocks().count();
        }
    }
    if let Ok(b) = Bye::parse(BY_BYE) {
        let _ = (b.ssrcs().count(), b.reason().map(|r| r.len()));
    }
    if let Ok(r) = ReceiverReport::parse(BY_RR) {
        let _ = r.report_blocks().count();
    }
    if let Ok(a) = App::parse(BY_APP) {
        let _ = a.data().len();
    }
}

fn hb(b: &[u8]) -> u64 {
    fnv1a(FNV_INIT ^ b.len() as u64, b)
}

/// Ops to run on a view with `k` operations: a zero tape sweeps all of them once.
fn script(t: &mut Tape, k: usize) -> Vec<usize> {
    if t.choose(3) == 0 {
        (0..k).collect()
    } else {
        let n = 1 + t.choose(2 * k);
        (0..n).map(|_| t.choose(k)).collect()
    }
}

/// Drain an iterator under the step bound, then call `next()` `extra` more times.
fn drain<I: Iterator>(o: &mut Obs, name: &'static str, mk: impl FnOnce() -> I, extra: usize, mut f: impl FnMut(&mut Obs, I::Item) -> u64) -> (usize, u64) {
    o.op(name);
    let mut it = mk();
    let bound = o.iter_bound;
    let (mut n, mut h) = (0usize, FNV_INIT);
    loop {
        o.cur = name;
        match it.next() {
            Some(x) => {
                n += 1;
                if n <= 6 {
                    beside_iter(o);
                }
                let v = f(o, x);
                h = fnv1a(h, &v.to_le_bytes());
                if n > bound {
                    o.set_fail(FailKind::IterBound, name, format!("iterator yielded more than {bound} items"));
                    break;
                }
            }
            None => break,
        }
    }
    o.cur = name;
    for _ in 0..extra {
        if it.next().is_some() {
            n += 1;
            if n > bound {
                o.set_fail(FailKind::IterBound, name, format!("iterator yielded more than {bound} items (after end)"));
                break;
            }
        }
    }
    if n >= 17 {
        o.probes[6] += 1;
    }
    o.res(n as u64);
    o.res(h);
    (n, h)
}

/// Two iterators over the same view advanced in a tape-chosen interleaving must both
/// produce the sequence a fresh iterator produces.
fn interleaved<I: Iterator>(o: &mut Obs, name: &'static str, t: &mut Tape, mk: impl Fn() -> I, val: impl Fn(I::Item) -> u64) {
    let extra0 = t.choose(4);
    let (_, h0) = drain(o, name, || mk(), extra0, |_, x| val(x));
    if t.choose(2) == 0 {
        return;
    }
    o.probes[9] += 1;
    o.op(name);
    let bound = o.iter_bound;
    let (mut a, mut b) = (mk(), mk());
    let (mut ha, mut hb_) = (FNV_INIT, FNV_INIT);
    let (mut da, mut db) = (false, false);
    let mut steps = 0usize;
    while !(da && db) {
        steps += 1;
        if steps > 2 * bound + 4 {
            o.set_fail(FailKind::IterBound, name, format!("interleaved iterators exceeded {} steps", 2 * bound + 4));
            return;
        }
        let pick_a = if da {
            false
        } else if db {
            true
        } else {
            t.choose(2) == 0
        };
        if pick_a {
            match a.next() {
                Some(x) => ha = fnv1a(ha, &val(x).to_le_bytes()),
                None => da = true,
            }
        } else {
            match b.next() {
                Some(x) => hb_ = fnv1a(hb_, &val(x).to_le_bytes()),
                None => db = true,
            }
        }
    }
    if ha != h0 || hb_ != h0 {
        o.set_fail(FailKind::IterUnstable, name, "a re-created / interleaved iterator produced a different sequence".into());
        return;
    }
    if t.choose(2) == 1 {
        adaptors(o, name, t, mk());
    }
}

/// The other ways of driving an iterator (`Iterator` methods a type may override): they must
/// return normally and finish within the bound as well; nothing is demanded of their values.
fn adaptors<I: Iterator>(o: &mut Obs, name: &'static str, t: &mut Tape, mut it: I) {
    o.op(name);
    let bound = o.iter_bound;
    let mut consumed = 0usize;
    // step widths: small ones, and the extremes an index computation may not survive
    let width = |t: &mut Tape| -> usize { [0usize, 1, 2, 3, 17, usize::MAX, usize::MAX / 8, 1 << 61, (1 << 32) - 1][t.choose(9)] };
    for _ in 0..1 + t.choose(5) {
        match t.choose(7) {
            0 => consumed += it.next().is_some() as usize,
            1 => consumed += it.nth(width(t)).is_some() as usize,
            2 => {
                let _ = it.size_hint();
            }
            3 => consumed += it.by_ref().take(bound + 1).count(),
            4 => consumed += it.by_ref().take(bound + 1).last().is_some() as usize,
            5 => consumed += it.by_ref().step_by(width(t).max(1)).take(bound + 1).count(),
            _ => consumed += it.by_ref().skip(width(t)).take(bound + 1).fold(0usize, |a, _| a + 1),
        }
        if consumed > bound {
            o.set_fail(FailKind::IterBound, name, format!("iterator driven through adaptors yielded more than {bound} items"));
            return;
        }
    }
    // by value: the only way to reach an overridden `fold` / `count` / `last`
    match t.choose(5) {
        1 => consumed += it.take(bound + 1).count(),
        2 => consumed += it.fold(0usize, |a, _| if a > bound { a } else { a + 1 }),
        3 => consumed += it.last().is_some() as usize,
        // the type's own count(), if it has one (an iterator that never ends is the watchdog's)
        4 => consumed += it.count(),
        _ => {}
    }
    if consumed > bound {
        o.set_fail(FailKind::IterBound, name, format!("iterator driven through adaptors yielded more than {bound} items"));
        return;
    }
    o.res(consumed as u64);
}

fn ex_header<'a, P: RtcpPacketParser<'a>>(p: &P, which: usize, o: &mut Obs) {
    match which {
        0 => {
            o.op("version");
            let v = p.version();
            o.res(v as u64)
        }
        1 => {
            o.op("type_");
            let v = p.type_();
            o.res(v as u64)
        }
        2 => {
            o.op("subtype");
            let v = p.subtype();
            o.res(v as u64)
        }
        3 => {
            o.op("length");
            let v = p.length();
            o.res(v as u64)
        }
        4 => {
            o.op("count");
            let v = p.count();
            o.res(v as u64)
        }
        _ => {
            o.op("header_data");
            let v = p.header_data();
            o.res(u32::from_be_bytes(v) as u64)
        }
    }
}

fn ex_report_block(rb: &ReportBlock<'_>, t: &mut Tape, o: &mut Obs) -> u64 {
    let mut h = 0u64;
    for k in script(t, 9) {
        match k {
            0 => {
                o.op("ReportBlock::ssrc");
                h ^= rb.ssrc() as u64
            }
            1 => {
                o.op("ReportBlock::fraction_lost");
                h ^= (rb.fraction_lost() as u64) << 8
            }
            2 => {
                o.op("ReportBlock::cumulative_lost");
                h ^= (rb.cumulative_lost() as u64) << 16
            }
            3 => {
                o.op("ReportBlock::extended_sequence_number");
                h ^= rb.extended_sequence_number() as u64
            }
            4 => {
                o.op("ReportBlock::interarrival_jitter");
                h ^= rb.interarrival_jitter() as u64
            }
            5 => {
                o.op("ReportBlock::last_sender_report_timestamp");
                h ^= rb.last_sender_report_timestamp() as u64
            }
            6 => {
                o.op("ReportBlock::delay_since_last_sender_report_timestamp");
                h ^= rb.delay_since_last_sender_report_timestamp() as u64
            }
            7 => {
                o.op("ReportBlock::fmt");
                h ^= format!("{rb:?}").len() as u64
            }
            _ => {
                o.op("ReportBlock::eq");
                h ^= (rb == rb) as u64
            }
        }
    }
    o.res(h);
    h
}

pub fn ex_app(p: &App<'_>, t: &mut Tape, o: &mut Obs) {
    for k in script(t, 14) {
        match k {
            0..=5 => ex_header(p, k, o),
            6 => {
                o.op("App::padding");
                let v = p.padding();
                o.res(v.map(|x| x as u64 + 1).unwrap_or(0))
            }
            7 => {
                o.op("App::ssrc");
                let v = p.ssrc();
                o.res(v as u64)
            }
            8 => {
                o.op("App::name");
                let v = p.name();
                o.res(hb(&v))
            }
            9 => {
                o.op("App::get_name_string");
                let v = p.get_name_string();
                o.res(v.map(|s| s.len() as u64).unwrap_or(99))
            }
            10 => {
                o.op("App::data");
                let v = p.data();
                o.res(hb(v))
            }
            11 => {
                o.op("App::clone_eq");
                let c = p.clone();
                o.res((c == *p) as u64)
            }
            12 => {
                o.op("App::fmt");
                o.res(format!("{p:?}").len() as u64)
            }
            _ => {
                o.op("Packet::from(App)");
                let pk = Packet::from(p.clone());
                o.res(pk.is_unknown() as u64)
            }
        }
    }
}

pub fn ex_bye(p: &Bye<'_>, t: &mut Tape, o: &mut Obs) {
    for k in script(t, 13) {
        match k {
            0..=5 => ex_header(p, k, o),
            6 => {
                o.op("Bye::padding");
                let v = p.padding();
                o.res(v.map(|x| x as u64 + 1).unwrap_or(0))
            }
            7 => interleaved(o, "Bye::ssrcs", t, || p.ssrcs(), |x| x as u64),
            8 => {
                o.op("Bye::reason");
                let v = p.reason();
                o.res(v.map(hb).unwrap_or(1))
            }
            9 => {
                o.op("Bye::get_reason_string");
                let v = p.get_reason_string();
                o.res(match v {
                    None => 0,
                    Some(Ok(s)) => 1 + s.len() as u64,
                    Some(Err(_)) => 999,
                })
            }
            10 => {
                o.op("Bye::clone_eq");
                let c = p.clone();
                o.res((c == *p) as u64)
            }
            11 => {
                o.op("Bye::fmt");
                o.res(format!("{p:?}").len() as u64)
            }
            _ => {
                o.op("Packet::from(Bye)");
                let pk = Packet::from(p.clone());
                o.res(pk.is_unknown() as u64)
            }
        }
    }
}

pub fn ex_rr(p: &ReceiverReport<'_>, t: &mut Tape, o: &mut Obs) {
    for k in script(t, 13) {
        match k {
            0..=5 => ex_header(p, k, o),
            6 => {
                o.op("Rr::padding");
                let v = p.padding();
                o.res(v.map(|x| x as u64 + 1).unwrap_or(0))
            }
            7 => {
                o.op("Rr::n_reports");
                let v = p.n_reports();
                o.res(v as u64)
            }
            8 => {
                o.op("Rr::ssrc");
                let v = p.ssrc();
                o.res(v as u64)
            }
            9 => {
                let extra = t.choose(4);
                drain(o, "Rr::report_blocks", || p.report_blocks(), extra, |o, rb| ex_report_block(&rb, t, o));
            }
            10 => {
                o.op("Rr::clone_eq");
                let c = p.clone();
                o.res((c == *p) as u64)
            }
            11 => {
                o.op("Rr::fmt");
                o.res(format!("{p:?}").len() as u64)
            }
            _ => {
                o.op("Packet::from(Rr)");
                let pk = Packet::from(p.clone());
                o.res(pk.is_unknown() as u64)
            }
        }
    }
}

pub fn ex_sr(p: &SenderReport<'_>, t: &mut Tape, o: &mut Obs) {
    for k in script(t, 17) {
        match k {
            0..=5 => ex_header(p, k, o),
            6 => {
                o.op("Sr::padding");
                let v = p.padding();
                o.res(v.map(|x| x as u64 + 1).unwrap_or(0))
            }
            7 => {
                o.op("Sr::n_reports");
                let v = p.n_reports();
                o.res(v as u64)
            }
            8 => {
                o.op("Sr::ssrc");
                let v = p.ssrc();
                o.res(v as u64)
            }
            9 => {
                let extra = t.choose(4);
                drain(o, "Sr::report_blocks", || p.report_blocks(), extra, |o, rb| ex_report_block(&rb, t, o));
            }
            10 => {
                o.op("Sr::ntp_timestamp");
                let v = p.ntp_timestamp();
                o.res(v)
            }
            11 => {
                o.op("Sr::rtp_timestamp");
                let v = p.rtp_timestamp();
                o.res(v as u64)
            }
            12 => {
                o.op("Sr::packet_count");
                let v = p.packet_count();
                o.res(v as u64)
            }
            13 => {
                o.op("Sr::octet_count");
                let v = p.octet_count();
                o.res(v as u64)
            }
            14 => {
                o.op("Sr::clone_eq");
                let c = p.clone();
                o.res((c == *p) as u64)
            }
            15 => {
                o.op("Sr::fmt");
                o.res(format!("{p:?}").len() as u64)
            }
            _ => {
                o.op("Packet::from(Sr)");
                let pk = Packet::from(p.clone());
                o.res(pk.is_unknown() as u64)
            }
        }
    }
}

fn ex_item(i: &SdesItem<'_>, t: &mut Tape, o: &mut Obs) -> u64 {
    let mut h = 0u64;
    o.op("SdesItem::type_");
    let ty = i.type_();
    let is_priv = ty == SdesItem::PRIV;
    if is_priv {
        o.probes[8] += 1;
    }
    for k in script(t, if is_priv { 8 } else { 6 }) {
        match k {
            0 => {
                o.op("SdesItem::type_");
                h ^= i.type_() as u64
            }
            1 => {
                o.op("SdesItem::length");
                h ^= (i.length() as u64) << 8
            }
            2 => {
                o.op("SdesItem::value");
                h ^= hb(i.value())
            }
            3 => {
                o.op("SdesItem::get_value_string");
                h ^= i.get_value_string().map(|s| s.len() as u64).unwrap_or(777)
            }
            4 => {
                o.op("SdesItem::clone_eq");
                let c = i.clone();
                h ^= (c == *i) as u64
            }
            5 => {
                o.op("SdesItem::fmt");
                h ^= format!("{i:?}").len() as u64
            }
            // the two documented-panic calls are issued on PRIV items only
            6 => {
                o.op("SdesItem::priv_prefix_len");
                h ^= (i.priv_prefix_len() as u64) << 16
            }
            _ => {
                o.op("SdesItem::priv_prefix");
                h ^= hb(i.priv_prefix())
            }
        }
    }
    h
}

fn ex_chunk(c: &SdesChunk<'_>, t: &mut Tape, o: &mut Obs) -> u64 {
    let mut h = 0u64;
    for k in script(t, 5) {
        match k {
            0 => {
                o.op("SdesChunk::ssrc");
                let s = c.ssrc();
                if s >> 24 == 0 {
                    o.probes[7] += 1;
                }
                h ^= s as u64
            }
            1 => {
                o.op("SdesChunk::length");
                h ^= (c.length() as u64) << 32
            }
            2 => {
                let extra = t.choose(3);
                let (_, hh) = drain(o, "SdesChunk::items", || c.items(), extra, |o, i| ex_item(i, t, o));
                h ^= hh
            }
            3 => {
                o.op("SdesChunk::clone_eq");
                let cc = c.clone();
                h ^= (cc == *c) as u64
            }
            _ => {
                o.op("SdesChunk::fmt");
                h ^= format!("{c:?}").len() as u64
            }
        }
    }
    h
}

pub fn ex_sdes(p: &Sdes<'_>, t: &mut Tape, o: &mut Obs) {
    for k in script(t, 11) {
        match k {
            0..=5 => ex_header(p, k, o),
            6 => {
                o.op("Sdes::padding");
                let v = p.padding();
                o.res(v.map(|x| x as u64 + 1).unwrap_or(0))
            }
            7 => {
                let extra = t.choose(3);
                let (n, _) = drain(o, "Sdes::chunks", || p.chunks(), extra, |o, c| ex_chunk(c, t, o));
                if n >= 3 {
                    o.probes[4] += 1;
                }
            }
            8 => {
                o.op("Sdes::clone_eq");
                let c = p.clone();
                o.res((c == *p) as u64)
            }
            9 => {
                o.op("Sdes::fmt");
                o.res(format!("{p:?}").len() as u64)
            }
            _ => {
                o.op("Packet::from(Sdes)");
                let pk = Packet::from(p.clone());
                o.res(pk.is_unknown() as u64)
            }
        }
    }
}

pub fn ex_nack(f: &Nack<'_>, t: &mut Tape, o: &mut Obs) {
    interleaved(o, "Nack::entries", t, || f.entries(), |x| x as u64);
}
pub fn ex_fir(f: &Fir<'_>, t: &mut Tape, o: &mut Obs) {
    interleaved(
        o,
        "Fir::entries",
        t,
        || f.entries(),
        |e| {
            let same = e == e;
            ((e.ssrc() as u64) << 8 | e.sequence() as u64) ^ ((format!("{e:?}").len() as u64) << 40) ^ ((same as u64) << 60)
        },
    );
}
pub fn ex_sli(f: &Sli<'_>, t: &mut Tape, o: &mut Obs) {
    interleaved(
        o,
        "Sli::lost_macroblocks",
        t,
        || f.lost_macroblocks(),
        |e| {
            let c = e;
            fnv1a(FNV_INIT, format!("{c:?}").as_bytes()) ^ (c == e) as u64
        },
    );
    o.op("Sli::fmt");
    o.res(format!("{f:?}").len() as u64);
}
pub fn ex_rpsi(f: &Rpsi<'_>, t: &mut Tape, o: &mut Obs) {
    for k in script(t, 3) {
        match k {
            0 => {
                o.op("Rpsi::payload_type");
                let v = f.payload_type();
                o.res(v as u64)
            }
            1 => {
                o.op("Rpsi::bit_string");
                let (b, n) = f.bit_string();
                o.res(hb(b) ^ n as u64)
            }
            _ => {
                o.op("Rpsi::fmt");
                o.res(format!("{f:?}").len() as u64)
            }
        }
    }
}
pub fn ex_pli(f: &Pli<'_>, o: &mut Obs) {
    o.op("Pli::fmt");
    o.res(format!("{f:?}").len() as u64);
}

fn fci_class<T>(o: &mut Obs, r: &Result<T, RtcpParseError>) {
    o.res(match r {
        Ok(_) => 1,
        Err(e) => 2 + err_code(e),
    });
}

pub fn err_code(e: &RtcpParseError) -> u64 {
    match e {
        RtcpParseError::UnsupportedVersion(_) => 1,
        RtcpParseError::Truncated { .. } => 2,
        RtcpParseError::TooLarge { .. } => 3,
        RtcpParseError::InvalidPadding => 4,
        RtcpParseError::SdesValueTooLarge { .. } => 5,
        RtcpParseError::SdesPrivContentTruncated { .. } => 6,
        RtcpParseError::SdesPrivPrefixTooLarge { .. } => 7,
        RtcpParseError::WrongImplementation => 8,
        RtcpParseError::PacketTypeMismatch { .. } => 9,
    }
}

macro_rules! fb_exercise {
    ($name:ident, $ty:ty, $lbl:literal) => {
        pub fn $name(p: &$ty, t: &mut Tape, o: &mut Obs) {
            for k in script(t, 17) {
                match k {
                    0..=5 => ex_header(p, k, o),
                    6 => {
                        o.op(concat!($lbl, "::padding"));
                        let v = p.padding();
                        o.res(v.map(|x| x as u64 + 1).unwrap_or(0))
                    }
                    7 => {
                        o.op(concat!($lbl, "::sender_ssrc"));
                        let v = p.sender_ssrc();
                        o.res(v as u64)
                    }
                    8 => {
                        o.op(concat!($lbl, "::media_ssrc"));
                        let v = p.media_ssrc();
                        o.res(v as u64)
                    }
                    9 => {
                        o.op(concat!($lbl, "::parse_fci::<Nack>"));
                        let r = p.parse_fci::<Nack>();
                        fci_class(o, &r);
                        if let Ok(f) = r {
                            o.accepted |= 1 << 11;
                            ex_nack(&f, t, o)
                        }
                    }
                    10 => {
                        o.op(concat!($lbl, "::parse_fci::<Fir>"));
                        let r = p.parse_fci::<Fir>();
                        fci_class(o, &r);
                        if let Ok(f) = r {
                            o.accepted |= 1 << 12;
                            ex_fir(&f, t, o)
                        }
                    }
                    11 => {
                        o.op(concat!($lbl, "::parse_fci::<Sli>"));
                        let r = p.parse_fci::<Sli>();
                        fci_class(o, &r);
                        if let Ok(f) = r {
                            o.accepted |= 1 << 13;
                            ex_sli(&f, t, o)
                        }
                    }
                    12 => {
                        o.op(concat!($lbl, "::parse_fci::<Rpsi>"));
                        let r = p.parse_fci::<Rpsi>();
                        fci_class(o, &r);
                        if let Ok(f) = r {
                            o.accepted |= 1 << 14;
                            ex_rpsi(&f, t, o)
                        }
                    }
                    13 => {
                        o.op(concat!($lbl, "::parse_fci::<Pli>"));
                        let r = p.parse_fci::<Pli>();
                        fci_class(o, &r);
                        if let Ok(f) = r {
                            o.accepted |= 1 << 15;
                            ex_pli(&f, o)
                        }
                    }
                    14 => {
                        o.op(concat!($lbl, "::clone_eq"));
                        let c = p.clone();
                        o.res((c == *p) as u64)
                    }
                    15 => {
                        o.op(concat!($lbl, "::fmt"));
                        o.res(format!("{p:?}").len() as u64)
                    }
                    _ => {
                        o.op(concat!("Packet::from(", $lbl, ")"));
                        let pk = Packet::from(p.clone());
                        o.res(pk.is_unknown() as u64)
                    }
                }
            }
        }
    };
}
fb_exercise!(ex_tfb, TransportFeedback<'_>, "Tfb");
fb_exercise!(ex_pfb, PayloadFeedback<'_>, "Pfb");

macro_rules! try_as_all {
    ($src:expr, $t:expr, $o:expr, $pre:literal) => {{
        match $t.choose(7) {
            0 => {
                $o.op(concat!($pre, "::try_as::<App>"));
                let r = $src.try_as::<App>();
                fci_class($o, &r);
                if let Ok(v) = r {
                    ex_app(&v, $t, $o)
                }
            }
            1 => {
                $o.op(concat!($pre, "::try_as::<Bye>"));
                let r = $src.try_as::<Bye>();
                fci_class($o, &r);
                if let Ok(v) = r {
                    ex_bye(&v, $t, $o)
                }
            }
            2 => {
                $o.op(concat!($pre, "::try_as::<ReceiverReport>"));
                let r = $src.try_as::<ReceiverReport>();
                fci_class($o, &r);
                if let Ok(v) = r {
                    ex_rr(&v, $t, $o)
                }
            }
            3 => {
                $o.op(concat!($pre, "::try_as::<Sdes>"));
                let r = $src.try_as::<Sdes>();
                fci_class($o, &r);
                if let Ok(v) = r {
                    ex_sdes(&v, $t, $o)
                }
            }
            4 => {
                $o.op(concat!($pre, "::try_as::<SenderReport>"));
                let r = $src.try_as::<SenderReport>();
                fci_class($o, &r);
                if let Ok(v) = r {
                    ex_sr(&v, $t, $o)
                }
            }
            5 => {
                $o.op(concat!($pre, "::try_as::<TransportFeedback>"));
                let r = $src.try_as::<TransportFeedback>();
                fci_class($o, &r);
                if let Ok(v) = r {
                    ex_tfb(&v, $t, $o)
                }
            }
            _ => {
                $o.op(concat!($pre, "::try_as::<PayloadFeedback>"));
                let r = $src.try_as::<PayloadFeedback>();
                fci_class($o, &r);
                if let Ok(v) = r {
                    ex_pfb(&v, $t, $o)
                }
            }
        }
    }};
}

pub fn ex_unknown(p: &Unknown<'_>, t: &mut Tape, o: &mut Obs) {
    for k in script(t, 11) {
        match k {
            0..=5 => ex_header(p, k, o),
            6 => {
                o.op("Unknown::data");
                let v = p.data();
                o.res(hb(v))
            }
            7 => {
                o.op("Unknown::eq");
                o.res((p == p) as u64)
            }
            8 => {
                o.op("Unknown::fmt");
                o.res(format!("{p:?}").len().min(1 << 20) as u64)
            }
            _ => try_as_all!(p, t, o, "Unknown"),
        }
    }
}

/// By-value conversions consume the packet, so they re-parse the same bytes first.
fn packet_by_value(data: &[u8], t: &mut Tape, o: &mut Obs) {
    let Ok(p) = Packet::parse(data) else { return };
    match t.choose(7) {
        0 => {
            o.op("App::try_from(Packet)");
            let r = App::try_from(p);
            fci_class(o, &r)
        }
        1 => {
            o.op("Bye::try_from(Packet)");
            let r = Bye::try_from(p);
            fci_class(o, &r)
        }
        2 => {
            o.op("ReceiverReport::try_from(Packet)");
            let r = ReceiverReport::try_from(p);
            fci_class(o, &r)
        }
        3 => {
            o.op("Sdes::try_from(Packet)");
            let r = Sdes::try_from(p);
            fci_class(o, &r)
        }
        4 => {
            o.op("SenderReport::try_from(Packet)");
            let r = SenderReport::try_from(p);
            fci_class(o, &r)
        }
        5 => {
            o.op("TransportFeedback::try_from(Packet)");
            let r = TransportFeedback::try_from(p);
            fci_class(o, &r)
        }
        _ => {
            o.op("PayloadFeedback::try_from(Packet)");
            let r = PayloadFeedback::try_from(p);
            fci_class(o, &r)
        }
    }
}

fn unknown_by_value(data: &[u8], t: &mut Tape, o: &mut Obs) {
    let Ok(p) = Unknown::parse(data) else { return };
    match t.choose(8) {
        0 => {
            o.op("App::try_from(Unknown)");
            let r = App::try_from(p);
            fci_class(o, &r)
        }
        1 => {
            o.op("Bye::try_from(Unknown)");
            let r = Bye::try_from(p);
            fci_class(o, &r)
        }
        2 => {
            o.op("ReceiverReport::try_from(Unknown)");
            let r = ReceiverReport::try_from(p);
            fci_class(o, &r)
        }
        3 => {
            o.op("Sdes::try_from(Unknown)");
            let r = Sdes::try_from(p);
            fci_class(o, &r)
        }
        4 => {
            o.op("SenderReport::try_from(Unknown)");
            let r = SenderReport::try_from(p);
            fci_class(o, &r)
        }
        5 => {
            o.op("TransportFeedback::try_from(Unknown)");
            let r = TransportFeedback::try_from(p);
            fci_class(o, &r)
        }
        6 => {
            o.op("PayloadFeedback::try_from(Unknown)");
            let r = PayloadFeedback::try_from(p);
            fci_class(o, &r)
        }
        _ => {
            o.op("Packet::from(Unknown)");
            let pk = Packet::from(p);
            o.res(pk.is_unknown() as u64)
        }
    }
}

pub fn ex_packet(p: &Packet<'_>, data: &[u8], t: &mut Tape, o: &mut Obs) {
    for k in script(t, 12) {
        match k {
            0..=5 => ex_header(p, k, o),
            6 => {
                o.op("Packet::is_unknown");
                let v = p.is_unknown();
                o.res(v as u64)
            }
            7 => {
                o.op("Packet::fmt");
                o.res(format!("{p:?}").len().min(1 << 20) as u64)
            }
            8 => try_as_all!(p, t, o, "Packet"),
            9 => packet_by_value(data, t, o),
            10 => unknown_by_value(data, t, o),
            _ => match p {
                Packet::App(v) => ex_app(v, t, o),
                Packet::Bye(v) => ex_bye(v, t, o),
                Packet::Rr(v) => ex_rr(v, t, o),
                Packet::Sdes(v) => ex_sdes(v, t, o),
                Packet::Sr(v) => ex_sr(v, t, o),
                Packet::TransportFeedback(v) => ex_tfb(v, t, o),
                Packet::PayloadFeedback(v) => ex_pfb(v, t, o),
                Packet::Unknown(v) => ex_unknown(v, t, o),
            },
        }
    }
}

fn note_padding_probe(o: &mut Obs, d: &[u8], min: usize) {
    if d.len() >= 4 && d[0] & 0x20 != 0 && (d[d.len() - 1] as usize) > d.len().saturating_sub(min) {
        o.probes[0] += 1;
    }
    if d.len() > 65536 {
        o.probes[5] += 1;
    }
}

macro_rules! typed {
    ($o:expr, $t:expr, $d:expr, $ty:ty, $name:literal, $bit:expr, $min:expr, $ex:path) => {{
        $o.op($name);
        let r = <$ty>::parse($d);
        fci_class($o, &r);
        if let Ok(v) = r {
            $o.accepted |= 1 << $bit;
            note_padding_probe($o, $d, $min);
            beside_parse::<$ty>($o, beside_bytes($bit));
            $ex(&v, $t, $o);
        }
    }};
}

/// All typed packet parsers on one byte string.
pub fn run_typed(d: &[u8], t: &mut Tape, o: &mut Obs) {
    typed!(o, t, d, App, "App::parse", 2, 12, ex_app);
    typed!(o, t, d, Bye, "Bye::parse", 3, 4, ex_bye);
    typed!(o, t, d, ReceiverReport, "ReceiverReport::parse", 4, 8, ex_rr);
    typed!(o, t, d, Sdes, "Sdes::parse", 5, 4, ex_sdes);
    typed!(o, t, d, SenderReport, "SenderReport::parse", 6, 28, ex_sr);
    typed!(o, t, d, TransportFeedback, "TransportFeedback::parse", 7, 12, ex_tfb);
    typed!(o, t, d, PayloadFeedback, "PayloadFeedback::parse", 8, 12, ex_pfb);
    typed!(o, t, d, Unknown, "Unknown::parse", 9, 4, ex_unknown);
}

pub fn run_packet(d: &[u8], t: &mut Tape, o: &mut Obs) {
    o.op("Packet::parse");
    let r = Packet::parse(d);
    fci_class(o, &r);
    if let Ok(p) = r {
        o.accepted |= 1 << 1;
        note_padding_probe(o, d, 4);
        beside_parse::<Unknown>(o, beside_bytes(2 + (d.len() as u32 / 4) % 8));
        ex_packet(&p, d, t, o);
    }
}

pub fn run_compound(d: &[u8], t: &mut Tape, o: &mut Obs) {
    o.op("Compound::parse");
    let r = Compound::parse(d);
    o.res(r.is_ok() as u64);
    let Ok(c) = r else { return };
    o.accepted |= 1;
    beside_iter(o);
    o.op("Compound::fmt");
    o.res(format!("{c:?}").len().min(1 << 20) as u64);
    let extra = t.choose(6);
    let tl = tiles(d);
    let mut idx = 0usize;
    let mut later_fail = false;
    drain(o, "Compound::next", || c, extra, |o, item| {
        let k = idx;
        idx += 1;
        match item {
            Ok(p) => {
                if let Some(&(off, len)) = tl.get(k) {
                    ex_packet(&p, &d[off..off + len], t, o);
                }
                1
            }
            Err(e) => {
                if k >= 1 {
                    later_fail = true;
                }
                2 + err_code(&e)
            }
        }
    });
    if later_fail {
        o.probes[3] += 1;
    }
    if t.choose(2) == 1 {
        if let Ok(c2) = Compound::parse(d) {
            adaptors(o, "Compound::next", t, c2);
        }
    }
    // handed to another thread part-way (a view is `Send`); that thread has a compound of its own
    if t.choose(64) == 63 {
        if let Ok(mut c4) = Compound::parse(d) {
            let k = t.choose(tl.len() + 1);
            for _ in 0..k {
                let _ = c4.next();
            }
            o.op("Compound::next");
            let bound = o.iter_bound;
            let r = std::thread::scope(|sc| {
                sc.spawn(move || {
                    let mut own = Compound::parse(BY_COMPOUND).ok();
                    let _ = own.as_mut().and_then(|c| c.next()).map(|r| r.is_ok());
                    let n = c4.take(bound + 1).count();
                    let _ = own.map(|c| c.count());
                    n
                })
                .join()
            });
            match r {
                Ok(n) => o.res(n as u64),
                Err(e) => std::panic::resume_unwind(e),
            }
        }
    }
    // Debug of the iterator in every state: fresh (above), part-way, exhausted, past the end
    if t.choose(2) == 1 {
        if let Ok(mut c3) = Compound::parse(d) {
            let k = t.choose(tl.len() + 3);
            o.op("Compound::fmt");
            for _ in 0..k {
                let _ = c3.next();
            }
            o.res(format!("{c3:?}").len().min(1 << 20) as u64);
            if t.choose(2) == 1 {
                let n = c3.by_ref().take(o.iter_bound + 1).count();
                o.res(n as u64);
                o.res(format!("{c3:?}").len().min(1 << 20) as u64);
            }
        }
    }
}

pub fn run_report_block(d: &[u8], t: &mut Tape, o: &mut Obs) {
    o.op("ReportBlock::parse");
    let r = ReportBlock::parse(d);
    fci_class(o, &r);
    if let Ok(rb) = r {
        o.accepted |= 1 << 10;
        ex_report_block(&rb, t, o);
    }
}

/// The five FCI parsers called DIRECTLY (the trait and its impls are public).
pub fn run_fci_direct(d: &[u8], t: &mut Tape, o: &mut Obs) {
    let odd = d.len() % 4 != 0;
    o.op("<Nack as FciParser>::parse");
    let r = <Nack as FciParser>::parse(d);
    fci_class(o, &r);
    if let Ok(f) = r {
        o.accepted |= 1 << 11;
        if odd {
            o.probes[2] += 1;
        }
        ex_nack(&f, t, o);
    }
    o.op("<Fir as FciParser>::parse");
    let r = <Fir as FciParser>::parse(d);
    fci_class(o, &r);
    if let Ok(f) = r {
        o.accepted |= 1 << 12;
        if odd {
            o.probes[2] += 1;
        }
        ex_fir(&f, t, o);
    }
    o.op("<Sli as FciParser>::parse");
    let r = <Sli as FciParser>::parse(d);
    fci_class(o, &r);
    if let Ok(f) = r {
        o.accepted |= 1 << 13;
        if odd {
            o.probes[2] += 1;
        }
        ex_sli(&f, t, o);
    }
    o.op("<Rpsi as FciParser>::parse");
    let r = <Rpsi as FciParser>::parse(d);
    fci_class(o, &r);
    if let Ok(f) = r {
        o.accepted |= 1 << 14;
        if odd {
            o.probes[2] += 1;
        }
        ex_rpsi(&f, t, o);
    }
    o.op("<Pli as FciParser>::parse");
    let r = <Pli as FciParser>::parse(d);
    fci_class(o, &r);
    if let Ok(f) = r {
        o.accepted |= 1 << 15;
        ex_pli(&f, o);
    }
}

fn priv_probe(o: &mut Obs, d: &[u8]) {
    for (off, what) in crate::faults::inner_len_sites(d) {
        if what == "sdes-priv-prefix-len" && off >= 1 && d[off] as usize + 1 > d[off - 1] as usize {
            o.probes[1] += 1;
        }
    }
}

/// A third-party writer that announces less than it writes: `write_into` hands it a buffer cut
/// to the announced size and the write unwinds (the documented panic of
/// `write_into_unchecked`).  The application catches it; a component that failed elsewhere on
/// the thread (or in the process) must not take the parsers down with it.
#[derive(Debug)]
struct LyingWriter;

impl RtcpPacketWriter for LyingWriter {
    fn calculate_size(&self) -> Result<usize, RtcpWriteError> {
        Ok(8)
    }
    fn write_into_unchecked(&self, buf: &mut [u8]) -> usize {
        buf[..4].copy_from_slice(&[0x80, 250, 0, 2]);
        buf[11] = 1;
        12
    }
    fn get_padding(&self) -> Option<u8> {
        None
    }
}

fn neighbour_fails() {
    let mut buf = [0u8; 32];
    let _ = guarded(|| LyingWriter.write_into(&mut buf).is_ok());
}

/// One delivery: the whole read-out history of the receiver for datagram `d`.
/// Returns Err on a panic (with the op in flight) -- other failures are left in `o.fail`.
pub fn deliver(d: &[u8], t: &mut Tape, o: &mut Obs) -> Result<(), (PanicInfo, &'static str)> {
    o.iter_bound = 5 * d.len() + 32;
    if t.choose(32) == 31 {
        // fault: a neighbouring component unwinds (and is caught) just before this delivery
        neighbour_fails();
        o.probes[11] += 1;
    }
    o.beside = t.choose(4) == 3;
    if o.beside {
        o.probes[10] += 1;
    }
    priv_probe(o, d);
    let r = guarded(|| {
        run_compound(d, t, o);
        run_packet(d, t, o);
        run_typed(d, t, o);
        run_report_block(d, t, o);
        // report block windows and FCI sub-slices chosen by the tape
        if d.len() >= 24 {
            let n = t.choose(3);
            for _ in 0..n {
                let off = t.choose(d.len() - 23);
                run_report_block(&d[off..off + 24], t, o);
            }
        }
        if d.len() >= 12 {
            run_fci_direct(&d[12..], t, o);
        }
        let n = 1 + t.choose(3);
        for _ in 0..n {
            let a = t.choose(d.len() + 1);
            let b = a + t.choose(d.len() - a + 1);
            run_fci_direct(&d[a..b], t, o);
        }
        // each tile of the reference tiling on its own
        let tl = tiles(d);
        if tl.len() > 1 {
            for (off, len) in tl.into_iter().take(12) {
                let tile = &d[off..off + len];
                run_packet(tile, t, o);
                if t.choose(3) == 1 {
                    run_typed(tile, t, o);
                }
            }
        }
    });
    match r {
        Ok(()) => Ok(()),
        Err(p) => Err((p, o.cur)),
    }
}
