//! Explicit choice tape.
//!
//! Every dynamic decision of a read-out history (which accessor next, how many extra
//! `next()` calls, how two iterators interleave) or of a builder call history (setter
//! order, stale overwritten calls, owned/borrowed variant at each position) is one
//! bounded integer drawn through a `Tape`.  While exploring, the integers come from the
//! episode's PRNG sub-stream and are recorded; a replay file stores the recorded integers,
//! so replay and minimisation never consult a PRNG.  Choice 0 is always the canonical /
//! simplest alternative and an exhausted tape yields 0, so truncating or zeroing a tape
//! is a valid simplification.

use crate::prng::Rng;

pub struct Tape {
    rng: Option<Rng>,
    fixed: Vec<u32>,
    pos: usize,
    pub rec: Vec<u32>,
}

impl Tape {
    pub fn recording(rng: Rng) -> Tape {
        Tape { rng: Some(rng), fixed: Vec::new(), pos: 0, rec: Vec::new() }
    }
    pub fn replaying(fixed: Vec<u32>) -> Tape {
        Tape { rng: None, fixed, pos: 0, rec: Vec::new() }
    }
    /// All-zero tape: canonical choices everywhere.
    pub fn canonical() -> Tape {
        Tape::replaying(Vec::new())
    }

    /// A choice in `0..n`.
    pub fn choose(&mut self, n: usize) -> usize {
        debug_assert!(n > 0);
        let v = match self.rng.as_mut() {
            Some(r) => r.below(n),
            None => {
                let v = self.fixed.get(self.pos).copied().unwrap_or(0) as usize % n;
                self.pos += 1;
                v
            }
        };
        self.rec.push(v as u32);
        v
    }

    /// True with probability num/den while exploring; canonical (false) on a zero tape.
    pub fn flag(&mut self, num: usize, den: usize) -> bool {
        // choice 0 must be "false": map the top `num` values to true
        self.choose(den) >= den - num
    }

    /// A 32-bit value (used for stale values that are later overwritten).
    pub fn value(&mut self) -> u32 {
        let v = match self.rng.as_mut() {
            Some(r) => r.u32(),
            None => {
                let v = self.fixed.get(self.pos).copied().unwrap_or(0);
                self.pos += 1;
                v
            }
        };
        self.rec.push(v);
        v
    }

    /// The fixed values of a replaying tape (what a watchdog needs to re-run the history).
    pub fn vals_for_publish(&self) -> Vec<u32> {
        self.fixed.clone()
    }

    pub fn exhausted(&self) -> bool {
        self.rng.is_none() && self.pos >= self.fixed.len()
    }
}
