//! Exhaustive sweep of one header-fault dimension: the 16-bit length field.
//!
//! The per-base enumeration of `enumf` rewrites a length field to a handful of values
//! around the true one.  Arithmetic on the field itself (the `+ 1`, the `* 4`, the width of
//! the intermediate type) can be wrong for a few of the 65536 values only — 0xffff, or the
//! values whose low byte is 0xff — and no base packet is ever that large.  This stage
//! delivers, for EVERY value of the field, frames whose real size is exactly, just below and
//! just above what the field announces, for every packet type, alone and as a member of a
//! compound.  The frames live in one reusable, mostly-zero buffer per worker, so a 256 KiB
//! frame costs a header write, not a copy.
//!
//! The sweep is independent of VERIF_SEED: the first `SWEEP_EPISODES` episodes of a run own
//! 16 field values each.

use std::cell::RefCell;

pub const SWEEP_EPISODES: u64 = 4096;
const VALUES_PER_EPISODE: u64 = 65536 / SWEEP_EPISODES;
/// one length-field period (65536 words)
pub const PERIOD: usize = 4 * 65536;
const BUF_LEN: usize = 2 * PERIOD + 64;

thread_local! {
    static BUF: RefCell<Vec<u8>> = RefCell::new(vec![0u8; BUF_LEN]);
}

/// The length-field values owned by episode `idx` (empty beyond the sweep).  Strided, so that
/// the expensive large values are spread over many episodes (and workers).
pub fn values_for(idx: u64) -> impl Iterator<Item = u32> {
    let n = if idx < SWEEP_EPISODES { VALUES_PER_EPISODE } else { 0 };
    (0..n).map(move |j| (idx + SWEEP_EPISODES * j) as u32)
}

/// Values that arithmetic on the field is most likely to get wrong (about 800 of the 65536;
/// used where a full sweep is too expensive).
pub fn is_edge_value(v: u32) -> bool {
    v < 48 || v >= 0xfff0 || v & 0xff == 0xff || v & 0xff == 0 || (v + 1).is_power_of_two() || v.is_power_of_two() || v == 0x3ffe || v == 0x4001 || v == 0x7ffe || v == 0x8001
}

/// The narrow core of the edge values (about 70), for the most expensive consumer.
pub fn is_key_value(v: u32) -> bool {
    v < 12 || v >= 0xfffc || (v + 1).is_power_of_two() || v.is_power_of_two() || (v & 0xff == 0xff && (v >> 8) % 8 == 1) || v == 0xfeff || v == 0xff00
}

#[derive(Clone, Copy, Debug)]
pub struct Frame {
    /// first header byte (version, padding bit, count)
    pub b0: u8,
    pub pt: u8,
    /// length field
    pub v: u16,
    /// real size of the delivery minus what the field announces
    pub delta: i32,
    /// bytes placed in front (a small well-formed packet), 0 or 4
    pub lead: usize,
    /// a small well-formed packet appended after the announced end
    pub trail: bool,
    /// value of the last announced byte when the padding bit is set
    pub pad: u8,
}

impl Frame {
    pub fn describe(&self) -> String {
        format!("length-sweep b0={:#04x} pt={} len_field={:#06x} delta={} lead={} trail={} pad={}", self.b0, self.pt, self.v, self.delta, self.lead, self.trail, self.pad)
    }
}

/// Build the frame in the worker's buffer and hand it to `f`; the buffer is zero again afterwards.
pub fn with_frame<R>(fr: &Frame, f: impl FnOnce(&[u8]) -> R) -> Option<R> {
    let announced = 4 * (fr.v as usize + 1);
    let start = fr.lead;
    let end_announced = start + announced;
    let mut total = end_announced as i64 + fr.delta as i64;
    if fr.trail {
        total = end_announced as i64 + 4;
    }
    if total < 0 || total as usize > BUF_LEN {
        return None;
    }
    let total = total as usize;
    BUF.with(|b| {
        let mut b = b.borrow_mut();
        let mut dirty: Vec<usize> = Vec::with_capacity(16);
        let mut put = |b: &mut Vec<u8>, i: usize, v: u8| {
            if i < BUF_LEN {
                b[i] = v;
                dirty.push(i);
            }
        };
        if fr.lead == 4 {
            // an empty BYE
            put(&mut *b, 0, 0x80);
            put(&mut *b, 1, 203);
        }
        put(&mut *b, start, fr.b0);
        put(&mut *b, start + 1, fr.pt);
        put(&mut *b, start + 2, (fr.v >> 8) as u8);
        put(&mut *b, start + 3, fr.v as u8);
        // the first body words are not zero (an index that wraps around lands on them)
        if announced >= 12 {
            for k in 4..12 {
                put(&mut *b, start + k, 0x5a);
            }
        }
        if fr.b0 & 0x20 != 0 && announced >= 8 {
            // a plausible padding count in the last announced byte
            put(&mut *b, end_announced - 1, fr.pad);
        }
        if fr.trail {
            put(&mut *b, end_announced, 0x80);
            put(&mut *b, end_announced + 1, 203);
        }
        let r = f(&b[..total]);
        for i in dirty {
            b[i] = 0;
        }
        Some(r)
    })
}

/// A datagram that is one very long chain of header-only packets (2^20 empty BYEs, 4 MiB): every
/// per-packet cost of walking a compound — a stack frame, a counter, an index — is paid a million
/// times.  Delivered once per run, by the episode that owns it.
pub const LONG_CHAIN_EPISODE: u64 = 1;
pub fn long_chain() -> Vec<u8> {
    let mut v = Vec::with_capacity(4 << 20);
    for _ in 0..(1usize << 20) {
        v.extend_from_slice(&[0x80, 203, 0, 0]);
    }
    v
}

/// Real sizes that wrong arithmetic on the field would mistake for the announced one: the byte
/// size truncated to 16 or 17 bits, the word count read as a byte count, the field or the word
/// count truncated to 8 bits, the two top bits lost in a 16-bit shift.  (Deltas relative to the
/// announced size; only sizes that differ from it and can hold a header.)
pub fn alias_deltas(v: u32) -> Vec<i32> {
    let h = 4 * (v as i64 + 1);
    let mut sizes = vec![
        h & 0xffff,
        h & 0x1ffff,
        (v as i64 + 1) & !3,
        4 * ((v as i64 + 1) & 0xff),
        4 * ((v as i64 & 0xff) + 1),
        (((v as i64) << 2) & 0xffff) + 4,
        (h & 0xffff) + 0x10000,
    ];
    sizes.sort_unstable();
    sizes.dedup();
    sizes.into_iter().filter(|&a| a >= 4 && a != h && (a as usize) < BUF_LEN).map(|a| (a - h) as i32).collect()
}

/// Single-packet frames for length-field value `v` (C08, C18 layer A, C01).
pub fn packet_frames(v: u32, with_sdes: bool) -> Vec<Frame> {
    let mut out = Vec::new();
    let v16 = v as u16;
    for pt in [200u8, 201, 202, 203, 204, 205, 206, 207, 0, 192] {
        if pt == 202 && !with_sdes {
            continue;
        }
        for b0 in [0x80u8, 0x81, 0xa0] {
            // a whole SDES/BYE body walk per delivery is O(size): fewer variants for those
            let deltas: &[i32] = if (pt == 202 || pt == 203) && b0 != 0x80 { &[0] } else { &[-4, -1, 0, 1, 4] };
            for &delta in deltas {
                out.push(Frame { b0, pt, v: v16, delta, lead: 0, trail: false, pad: 4 });
            }
        }
        // a set padding bit with a zero count in the last byte, at every size
        out.push(Frame { b0: 0xa0, pt, v: v16, delta: 0, lead: 0, trail: false, pad: 0 });
        // real sizes that mis-computed arithmetic takes for the announced one
        if matches!(pt, 201 | 203 | 204 | 207) {
            for delta in alias_deltas(v) {
                out.push(Frame { b0: 0x80, pt, v: v16, delta, lead: 0, trail: false, pad: 4 });
            }
        }
        // a surplus of exactly one period of the 16-bit word count: a comparison done in the
        // field's own width cannot see it
        if is_edge_value(v) && matches!(pt, 201 | 204 | 206 | 207) {
            out.push(Frame { b0: 0x80, pt, v: v16, delta: PERIOD as i32, lead: 0, trail: false, pad: 4 });
        }
    }
    out
}

/// Compound frames for length-field value `v` (C11, C18's compound layer, C01).
pub fn compound_frames(v: u32) -> Vec<Frame> {
    let mut out = Vec::new();
    let v16 = v as u16;
    for pt in [207u8, 204, 201] {
        for lead in [0usize, 4] {
            for delta in [-4i32, -1, 0, 1, 3, 4] {
                out.push(Frame { b0: 0x80, pt, v: v16, delta, lead, trail: false, pad: 4 });
            }
            out.push(Frame { b0: 0x80, pt, v: v16, delta: 0, lead, trail: true, pad: 4 });
            if pt == 207 {
                for delta in alias_deltas(v) {
                    out.push(Frame { b0: 0x80, pt, v: v16, delta, lead, trail: false, pad: 4 });
                }
            }
            // one period of zero bytes behind the tile: 65536 more four-byte tiles (version 0),
            // i.e. a chain longer than any 16-bit counter
            if is_key_value(v) && pt == 207 {
                out.push(Frame { b0: 0x80, pt, v: v16, delta: PERIOD as i32, lead, trail: false, pad: 4 });
                out.push(Frame { b0: 0x80, pt, v: v16, delta: PERIOD as i32 - 4, lead, trail: false, pad: 4 });
            }
        }
    }
    out
}
