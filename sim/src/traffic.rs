//! Honest traffic for the receiver-side checks: datagrams produced by the REAL builders
//! (the Sender) or by the foreign peer's independent encoder.

use crate::foreign;
use crate::guard::guarded;
use crate::json::J;
use crate::prng::Rng;
use crate::realise::{plan_canonical, realise};
use crate::spec::*;

pub struct Base {
    pub bytes: Vec<u8>,
    pub source: &'static str,
    pub specs: Vec<Spec>,
}

impl Base {
    pub fn provenance(&self) -> J {
        J::obj().set("source", self.source).set("specs", J::Arr(self.specs.iter().map(|s| s.to_json()).collect()))
    }
}

/// Bytes the real builder writes for `spec` into a fresh, exactly-sized, zeroed buffer.
/// None when the builder rejects the configuration, misreports its size or unwinds
/// (those are the writer-side properties' business, not the receiver's).
pub fn real_bytes(spec: &Spec, hash_key: u64) -> Option<Vec<u8>> {
    let plan = plan_canonical(spec);
    guarded(|| {
        realise(&plan, hash_key, |c| {
            let n = match c.size() {
                Some(Ok(n)) => n,
                Some(Err(_)) => return None,
                None => return None,
            };
            if n > 1 << 20 {
                return None;
            }
            let mut buf = vec![0u8; n];
            match c.write(&mut buf) {
                Ok(w) if w == n => Some(buf),
                _ => None,
            }
        })
    })
    .ok()
    .flatten()
}

/// One packet's bytes, from the Sender when it can produce them, else from the foreign peer.
pub fn packet_bytes(r: &mut Rng, spec: &Spec, hash_key: u64) -> (Vec<u8>, &'static str) {
    if r.chance(2, 5) {
        if let Some(b) = real_bytes(spec, hash_key) {
            return (b, "sender");
        }
    }
    (foreign::encode(spec).unwrap_or_default(), "foreign")
}

/// A datagram of 1..=max_packets stacked packets.
pub fn gen_datagram(r: &mut Rng, cfg: &GenCfg, max_packets: usize, hash_key: u64) -> Base {
    let n = match r.below(6) {
        0..=2 => 1,
        3 => 2,
        4 => 3,
        _ => r.range(1, max_packets.max(1)),
    }
    .min(max_packets.max(1));
    let mut bytes = Vec::new();
    let mut specs = Vec::new();
    let mut any_sender = false;
    let mut any_foreign = false;
    for i in 0..n {
        let mut s = gen_packet(r, cfg);
        if i + 1 != n {
            strip_padding(&mut s);
        }
        let (b, src) = packet_bytes(r, &s, hash_key);
        if src == "sender" {
            any_sender = true
        } else {
            any_foreign = true
        }
        bytes.extend_from_slice(&b);
        specs.push(s);
    }
    let source = match (any_sender, any_foreign) {
        (true, false) => "sender",
        (false, true) => "foreign",
        _ => "mixed",
    };
    Base { bytes, source, specs }
}

/// A single packet datagram (for the per-packet framing checks).
pub fn gen_single(r: &mut Rng, cfg: &GenCfg, hash_key: u64) -> Base {
    let s = gen_packet(r, cfg);
    let (bytes, source) = packet_bytes(r, &s, hash_key);
    Base { bytes, source, specs: vec![s] }
}
