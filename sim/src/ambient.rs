//! Ambient sessions: the second party on the same thread.
//!
//! A process that uses a codec rarely serves one session.  Between any two calls the observed
//! session makes, the same thread may parse another peer's datagram, step another compound's
//! iterator, ask another builder for its size or write another packet.  The crate shares nothing
//! between its values, so none of that may change what the observed session sees; a change that
//! parks something in a thread-local or a static between two calls makes it matter.
//!
//! This module is the scheduler of that second party.  `guard::guarded` (the one door through
//! which every check calls into rtcp-types) calls `tick()` first; in an armed episode a seeded
//! generator decides at every such call boundary whether the other party takes a step now, and
//! which.  One integer (the episode seed) decides every interleaving: the generator is reseeded
//! and all ambient state is dropped when an episode starts, so an episode is still a function of
//! its seed alone, whichever worker runs it and whatever ran before.
//!
//! The other party's sessions:
//!   * receiver sessions over fixed datagrams (a compound iterator kept alive part-way, views
//!     that stay alive across steps, ill-formed datagrams that are turned down, SR / RR of every
//!     small report count whole and cut short, every FCI kind read out);
//!   * the observed session's own recent traffic (a ring of the deliveries this episode made so
//!     far: the same base under other faults, i.e. datagrams of the same shape) parsed again;
//!   * sender sessions over a pool of live builders of every type (measured and left, written
//!     through `write_into`, written unchecked into exactly the announced size, built and
//!     dropped);
//!   * a sibling lent by the check: a closure that builds configurations of the same shape as
//!     the one under observation and measures / writes them.
//!
//! Nothing here is an oracle.  The checks' own monitors judge the observed session exactly as
//! they do without the second party; a violation that only shows with it is reported through the
//! process-history replay (the episode, re-run alone on one thread of a fresh process).

use rtcp_types::prelude::*;
use rtcp_types::{
    App, Bye, Compound, Fir, Nack, Packet, PayloadFeedback, Pli, ReceiverReport, ReportBlock, Rpsi, Sdes, SdesChunk, SdesItem, SenderReport, Sli, TransportFeedback,
    Unknown,
};
use std::cell::RefCell;
use std::panic::{catch_unwind, AssertUnwindSafe};

type Lent = Box<dyn FnMut(u64)>;

struct State {
    armed: bool,
    rng: u64,
    mask: u64,
    steps: u64,
    comp: Option<Compound<'static>>,
    view: Option<Packet<'static>>,
    writers: Vec<Box<dyn RtcpPacketWriter>>,
    built: bool,
    ring: Vec<Vec<u8>>,
    ring_at: usize,
    lent: Option<Lent>,
    scratch: Vec<u8>,
}

thread_local! {
    static ST: RefCell<State> = RefCell::new(State {
        armed: false, rng: 0, mask: 0, steps: 0, comp: None, view: None, writers: Vec::new(), built: false,
        ring: Vec::new(), ring_at: 0, lent: None, scratch: Vec::new(),
    });
}

/// RR (one block) + SDES (one chunk, CNAME "ab") + BYE (one source, reason "x")
const COMPOUND_A: &[u8] = &[
    0x81, 201, 0, 7, 0, 0, 0, 1, 0, 0, 0, 2, 3, 0, 0, 4, 0, 0, 0, 5, 0, 0, 0, 6, 0, 0, 0, 7, 0, 0, 0, 8, //
    0x81, 202, 0, 2, 0, 0, 0, 9, 1, 2, b'a', b'b', //
    0x81, 203, 0, 2, 0, 0, 0, 9, 1, b'x', 0, 0,
];
/// its second member (an SR that is too short for its count) is turned down on read-out
const COMPOUND_BAD_MEMBER: &[u8] = &[0x80, 203, 0, 0, 0x82, 200, 0, 6, 0, 0, 0, 1, 0, 0, 0, 2, 0, 0, 0, 3, 0, 0, 0, 4, 0, 0, 0, 5, 0, 0, 0, 6, 0x80, 203, 0, 0];
/// the length chain overruns
const COMPOUND_REJECTED: &[u8] = &[0x80, 203, 0, 0, 0x80, 201, 0, 3, 0, 0, 0, 1];
const SDES_TWO_CHUNKS: &[u8] = &[0x82, 202, 0, 6, 0, 0, 0, 1, 1, 3, b'a', b'b', b'c', 8, 4, 2, b'p', b'q', b'v', 0, 0x12, 0x34, 0x56, 0x78, 2, 1, b'n', 0];
const BYE_REASON: &[u8] = &[0x82, 203, 0, 4, 0, 0, 0, 1, 0, 0, 0, 2, 5, b'l', b'e', b'a', b'v', b'e', 0, 0];
const APP_DATA: &[u8] = &[0x85, 204, 0, 4, 0, 0, 0, 1, b'n', b'a', b'm', b'e', 1, 2, 3, 4, 5, 6, 7, 8];
const TFB_NACK: &[u8] = &[0x81, 205, 0, 4, 0, 0, 0, 1, 0, 0, 0, 2, 0, 10, 0x80, 1, 0xff, 0xf0, 0, 3];
const PFB_PLI: &[u8] = &[0x81, 206, 0, 2, 0, 0, 0, 1, 0, 0, 0, 2];
const PFB_SLI: &[u8] = &[0x82, 206, 0, 4, 0, 0, 0, 1, 0, 0, 0, 2, 0x00, 0x28, 0x00, 0x41, 0xff, 0xff, 0xff, 0xff];
const PFB_RPSI: &[u8] = &[0x83, 206, 0, 4, 0, 0, 0, 1, 0, 0, 0, 2, 8, 96, 1, 2, 3, 4, 5, 0];
const PFB_FIR: &[u8] = &[0x84, 206, 0, 6, 0, 0, 0, 1, 0, 0, 0, 0, 0, 0, 0, 7, 9, 0, 0, 0, 0, 0, 0, 8, 10, 0, 0, 0];
const UNKNOWN_XR: &[u8] = &[0x80, 207, 0, 2, 0, 0, 0, 1, 0, 0, 0, 2];
const VERSION1: &[u8] = &[0x40, 201, 0, 1, 0, 0, 0, 1];
const PADDED_RR: &[u8] = &[0xa0, 201, 0, 2, 0, 0, 0, 1, 0, 0, 0, 4];

/// Start of an episode: drop everything the other party held, reseed its scheduler.
pub fn arm(seed: u64) {
    let h = crate::prng::splitmix64(seed ^ 0x616d_6269_656e_7431);
    let _ = ST.try_with(|s| {
        let Ok(mut s) = s.try_borrow_mut() else { return };
        s.comp = None;
        s.view = None;
        s.lent = None;
        s.ring.clear();
        s.ring_at = 0;
        s.steps = 0;
        // a quarter of the episodes have a second party; it moves at every 4th, 16th or 64th call
        // boundary on average
        s.armed = h & 3 == 0;
        s.mask = [3u64, 15, 15, 63][((h >> 2) & 3) as usize];
        s.rng = h | 1;
    });
}

/// End of an episode: how many steps the other party took.
pub fn disarm() -> u64 {
    ST.try_with(|s| {
        let Ok(mut s) = s.try_borrow_mut() else { return 0 };
        s.armed = false;
        s.lent = None;
        s.comp = None;
        s.view = None;
        std::mem::take(&mut s.steps)
    })
    .unwrap_or(0)
}

pub fn armed() -> bool {
    ST.try_with(|s| s.try_borrow().map(|s| s.armed).unwrap_or(false)).unwrap_or(false)
}

/// The observed session's own traffic, for the other party to parse again later.
pub fn note_delivery(b: &[u8]) {
    if b.len() > 2048 {
        return;
    }
    let _ = ST.try_with(|s| {
        let Ok(mut s) = s.try_borrow_mut() else { return };
        if !s.armed {
            return;
        }
        let at = s.ring_at;
        if s.ring.len() < 6 {
            s.ring.push(b.to_vec());
        } else {
            s.ring[at % 6].clear();
            s.ring[at % 6].extend_from_slice(b);
        }
        s.ring_at = at + 1;
    });
}

/// A sibling of what the check is observing (builders of the same shape), stepped by the other party.
pub fn lend(f: Lent) {
    let _ = ST.try_with(|s| {
        if let Ok(mut s) = s.try_borrow_mut() {
            if s.armed {
                s.lent = Some(f);
            }
        }
    });
}

pub fn unlend() {
    let _ = ST.try_with(|s| {
        if let Ok(mut s) = s.try_borrow_mut() {
            s.lent = None;
        }
    });
}

/// A call boundary of the observed session.
#[inline]
pub fn tick() {
    let _ = ST.try_with(|s| {
        // re-entered from inside a step (the lent sibling calls through `guarded` too): the other
        // party is already moving
        let Ok(mut s) = s.try_borrow_mut() else { return };
        if !s.armed {
            return;
        }
        let mut x = s.rng;
        x ^= x << 13;
        x ^= x >> 7;
        x ^= x << 17;
        s.rng = x;
        if (x >> 20) & s.mask != 0 {
            return;
        }
        s.steps += 1;
        let sel = x >> 28;
        let st: &mut State = &mut s;
        if catch_unwind(AssertUnwindSafe(|| step(st, sel))).is_err() {
            // the other party's own failures are not the observed session's business
            st.comp = None;
            st.view = None;
        }
    });
}

fn pool() -> Vec<Box<dyn RtcpPacketWriter>> {
    let mut v: Vec<Box<dyn RtcpPacketWriter>> = Vec::new();
    v.push(Box::new(SenderReport::builder(1).ntp_timestamp(2).rtp_timestamp(3).packet_count(4).octet_count(5).add_report_block(ReportBlock::builder(6).fraction_lost(7))));
    v.push(Box::new(ReceiverReport::builder(1).add_report_block(ReportBlock::builder(2)).add_report_block(ReportBlock::builder(3).interarrival_jitter(9))));
    v.push(Box::new(ReceiverReport::builder(4).padding(4)));
    v.push(Box::new(Sdes::builder().add_chunk(SdesChunk::builder(1).add_item_owned(SdesItem::builder(SdesItem::CNAME, "other")).add_item_owned(SdesItem::builder(SdesItem::PRIV, "v").prefix(b"pq".to_vec())))));
    v.push(Box::new(Bye::builder().add_source(1).add_source(2).reason_owned("gone")));
    v.push(Box::new(Bye::builder().add_source(3).padding(8)));
    v.push(Box::new(App::builder(1, "amb").data(&[1, 2, 3, 4, 5, 6, 7, 8])));
    v.push(Box::new(Unknown::builder(207, &[0, 0, 0, 1, 0, 0, 0, 2])));
    v.push(Box::new(TransportFeedback::builder_owned(Nack::builder().add_rtp_sequence(100).add_rtp_sequence(105).add_rtp_sequence(200)).sender_ssrc(1).media_ssrc(2)));
    v.push(Box::new(TransportFeedback::builder_owned(Nack::builder().add_rtp_sequence(7)).sender_ssrc(1).media_ssrc(2).padding(4)));
    v.push(Box::new(PayloadFeedback::builder_owned(Pli::builder()).sender_ssrc(1).media_ssrc(2)));
    v.push(Box::new(PayloadFeedback::builder_owned(Fir::builder().add_ssrc(5, 1).add_ssrc(6, 2)).sender_ssrc(1)));
    v.push(Box::new(PayloadFeedback::builder_owned(Sli::builder().add_lost_macroblock(1, 2, 3).add_lost_macroblock(4, 5, 6)).sender_ssrc(1).media_ssrc(2)));
    v.push(Box::new(PayloadFeedback::builder_owned(Rpsi::builder().payload_type(96).native_data_owned(vec![1, 2, 3], 3)).sender_ssrc(1).media_ssrc(2)));
    v.push(Box::new(Compound::builder().add_packet(ReceiverReport::builder(1)).add_packet(Sdes::builder().add_chunk(SdesChunk::builder(1).add_item_owned(SdesItem::builder(SdesItem::CNAME, "c")))).add_packet(Bye::builder().add_source(1))));
    v.push(Box::new(Nack::builder().add_rtp_sequence(1).add_rtp_sequence(2)));
    v
}

/// SR / RR with `count` all-zero report blocks, `cut` bytes short.
fn report(scratch: &mut Vec<u8>, sr: bool, count: usize, cut: usize) -> usize {
    let n = if sr { 28 } else { 8 } + 24 * count;
    scratch.clear();
    scratch.resize(n.max(64), 0);
    scratch[0] = 0x80 | count as u8;
    scratch[1] = if sr { 200 } else { 201 };
    scratch[2] = 0;
    scratch[3] = (n / 4 - 1) as u8;
    n.saturating_sub(cut)
}

fn read_packet(p: &Packet<'_>) {
    match p {
        Packet::Sr(x) => {
            let _ = (x.ssrc(), x.n_reports(), x.report_blocks().map(|b| b.ssrc()).count(), x.padding());
        }
        Packet::Rr(x) => {
            let _ = (x.ssrc(), x.n_reports(), x.report_blocks().map(|b| b.cumulative_lost()).count(), x.padding());
        }
        Packet::Sdes(x) => {
            for c in x.chunks() {
                let _ = c.ssrc();
                for i in c.items() {
                    let _ = (i.type_(), i.value().len());
                    if i.type_() == SdesItem::PRIV {
                        let _ = i.priv_prefix().len();
                    }
                }
            }
        }
        Packet::Bye(x) => {
            let _ = (x.ssrcs().count(), x.reason().map(|r| r.len()), x.padding());
        }
        Packet::App(x) => {
            let _ = (x.ssrc(), x.name(), x.data().len(), x.subtype());
        }
        Packet::TransportFeedback(x) => {
            let _ = (x.sender_ssrc(), x.media_ssrc());
            if let Ok(n) = x.parse_fci::<Nack>() {
                let _ = n.entries().take(64).count();
            }
        }
        Packet::PayloadFeedback(x) => {
            let _ = (x.sender_ssrc(), x.media_ssrc(), x.padding());
            if let Ok(f) = x.parse_fci::<Fir>() {
                let _ = f.entries().map(|e| e.ssrc()).take(64).count();
            }
            if let Ok(f) = x.parse_fci::<Sli>() {
                let _ = f.lost_macroblocks().take(64).count();
            }
            if let Ok(f) = x.parse_fci::<Rpsi>() {
                let _ = (f.payload_type(), f.bit_string().0.len());
            }
            let _ = x.parse_fci::<Pli>().is_ok();
        }
        Packet::Unknown(x) => {
            let _ = (x.data().len(), x.try_as::<Bye>().is_ok(), x.try_as::<ReceiverReport>().is_ok());
        }
    }
}

fn parse_all(b: &[u8]) {
    if let Ok(p) = Packet::parse(b) {
        read_packet(&p);
    }
    let _ = Unknown::parse(b).is_ok();
    match b.get(1).copied().unwrap_or(0) {
        200 => {
            let _ = SenderReport::parse(b).map(|p| p.report_blocks().count());
            let _ = ReceiverReport::parse(b).is_ok();
        }
        201 => {
            let _ = ReceiverReport::parse(b).map(|p| p.report_blocks().count());
            let _ = SenderReport::parse(b).is_ok();
        }
        202 => {
            let _ = Sdes::parse(b).map(|p| p.chunks().count());
        }
        203 => {
            let _ = Bye::parse(b).map(|p| p.ssrcs().count());
        }
        204 => {
            let _ = App::parse(b).map(|p| p.data().len());
        }
        205 => {
            let _ = TransportFeedback::parse(b).is_ok();
            let _ = PayloadFeedback::parse(b).is_ok();
        }
        206 => {
            let _ = PayloadFeedback::parse(b).is_ok();
            let _ = TransportFeedback::parse(b).is_ok();
        }
        _ => {
            let _ = Bye::parse(b).is_ok();
        }
    }
    if let Ok(c) = Compound::parse(b) {
        let _ = c.take(8).filter(|r| r.is_ok()).count();
    }
}

fn step(s: &mut State, sel: u64) {
    let which = sel % 12;
    let arg = (sel / 12) as usize;
    // a lent sibling has the same shape as what is observed: it is what the other party mostly
    // works on while it is there
    if s.lent.is_some() && (which >= 6 || arg & 1 == 0) {
        if let Some(f) = s.lent.as_mut() {
            f(sel / 24);
        }
        return;
    }
    match which {
        0 => {
            // a compound iterator kept alive part-way across the observed session's calls
            match s.comp.as_mut() {
                Some(c) => {
                    if c.next().is_none() {
                        s.comp = None;
                    }
                }
                None => s.comp = Compound::parse(COMPOUND_A).ok(),
            }
        }
        1 => {
            let _ = Compound::parse(COMPOUND_REJECTED).is_ok();
            if let Ok(c) = Compound::parse(COMPOUND_BAD_MEMBER) {
                let _ = c.take(8).filter(|r| r.is_err()).count();
            }
            let _ = Packet::parse(VERSION1).is_ok();
            let _ = Compound::parse(VERSION1).map(|c| c.count());
        }
        2 => {
            // SR and RR of every small report count, whole and cut short
            let count = arg % 5;
            let sr = (arg / 5) & 1 == 0;
            let cut = [0usize, 0, 4, 20, 24][(arg / 10) % 5];
            let mut sc = std::mem::take(&mut s.scratch);
            let n = report(&mut sc, sr, count, cut);
            if sr {
                let _ = SenderReport::parse(&sc[..n]).map(|p| p.report_blocks().count());
            } else {
                let _ = ReceiverReport::parse(&sc[..n]).map(|p| p.report_blocks().count());
            }
            let _ = Packet::parse(&sc[..n]).is_ok();
            s.scratch = sc;
        }
        3 => {
            // a view that stays alive while the observed session goes on, read at a later step
            match s.view.take() {
                Some(p) => read_packet(&p),
                None => {
                    let d = [SDES_TWO_CHUNKS, BYE_REASON, APP_DATA, TFB_NACK, PFB_FIR, PFB_SLI, PFB_RPSI, PADDED_RR][arg % 8];
                    s.view = Packet::parse(d).ok();
                }
            }
        }
        4 => {
            for d in [TFB_NACK, PFB_PLI, PFB_SLI, PFB_RPSI, PFB_FIR] {
                parse_all(d);
            }
        }
        5 => {
            for d in [UNKNOWN_XR, SDES_TWO_CHUNKS, BYE_REASON, APP_DATA, PADDED_RR, COMPOUND_A] {
                parse_all(d);
            }
        }
        6 | 7 => {
            // the observed session's own earlier traffic (the same base under another fault)
            if s.ring.is_empty() {
                parse_all(COMPOUND_A);
            } else {
                let k = arg % s.ring.len();
                let d = std::mem::take(&mut s.ring[k]);
                parse_all(&d);
                s.ring[k] = d;
            }
        }
        _ => {
            if !s.built {
                s.built = true;
                s.writers = catch_unwind(pool).unwrap_or_default();
            }
            if s.writers.is_empty() {
                return;
            }
            let w = &s.writers[arg % s.writers.len()];
            match which {
                8 => {
                    // measured and left
                    let _ = w.calculate_size();
                }
                9 => {
                    // what the blanket `write_into` does for a sized writer: measure, then write
                    s.scratch.resize(s.scratch.len().max(256), 0);
                    if let Ok(n) = w.calculate_size() {
                        if n <= 200 {
                            let _ = w.write_into_unchecked(&mut s.scratch[..n]);
                        }
                    }
                    let _ = w.get_padding();
                }
                10 => {
                    // written twice from one measurement, the second time into a longer buffer
                    if let Ok(n) = w.calculate_size() {
                        if n <= 200 {
                            s.scratch.resize(s.scratch.len().max(256), 0);
                            let _ = w.write_into_unchecked(&mut s.scratch[..n]);
                            let _ = w.write_into_unchecked(&mut s.scratch[..n + 8]);
                        }
                    }
                }
                _ => {
                    // built, measured and dropped; a compound parsed and dropped unread
                    let b = Compound::builder().add_packet(Bye::builder().add_source(arg as u32)).add_packet(ReceiverReport::builder(7));
                    let _ = b.calculate_size();
                    drop(b);
                    drop(Compound::parse(COMPOUND_A));
                }
            }
        }
    }
}
