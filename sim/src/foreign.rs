//! The "foreign peer": an independent RFC 3550 / 4585 / 5104 encoder.
//!
//! STUB component.  It is a traffic source only, never an oracle for a claimed property:
//! it exists so that the receiver-side checks see well-formed traffic that the crate's own
//! builders may be unable to produce (padded SDES / feedback, PRIV items at every
//! alignment) and so that a defect in a builder cannot starve a receiver-side check.
//! Out-of-range fields of a spec are clamped into range.

use crate::spec::*;

fn header(out: &mut Vec<u8>, padding: bool, count: u8, pt: u8) -> usize {
    let at = out.len();
    out.push(0x80 | if padding { 0x20 } else { 0 } | (count & 0x1f));
    out.push(pt);
    out.extend_from_slice(&[0, 0]);
    at
}

fn finish(out: &mut Vec<u8>, at: usize, padding: u8) {
    let padding = padding & !3;
    if padding > 0 {
        for _ in 0..padding - 1 {
            out.push(0);
        }
        out.push(padding);
    }
    debug_assert!((out.len() - at) % 4 == 0);
    let words = ((out.len() - at) / 4 - 1) as u16;
    out[at + 2..at + 4].copy_from_slice(&words.to_be_bytes());
}

fn zero_fill(out: &mut Vec<u8>, at: usize) {
    while (out.len() - at) % 4 != 0 {
        out.push(0);
    }
}

fn blocks(out: &mut Vec<u8>, bs: &[Rb]) {
    for b in bs.iter().take(31) {
        out.extend_from_slice(&b.ssrc.to_be_bytes());
        out.push(b.fraction);
        out.extend_from_slice(&(b.cum_lost & 0xff_ffff).to_be_bytes()[1..]);
        out.extend_from_slice(&b.ext_seq.to_be_bytes());
        out.extend_from_slice(&b.jitter.to_be_bytes());
        out.extend_from_slice(&b.lsr.to_be_bytes());
        out.extend_from_slice(&b.dlsr.to_be_bytes());
    }
}

fn truncate_utf8(s: &str, max: usize) -> &[u8] {
    let mut n = s.len().min(max);
    while !s.is_char_boundary(n) {
        n -= 1;
    }
    &s.as_bytes()[..n]
}

pub fn encode_item(out: &mut Vec<u8>, i: &Item) {
    let ty = if i.ty == 0 { 1 } else { i.ty };
    out.push(ty);
    if ty == 8 {
        let p = &i.prefix[..i.prefix.len().min(254)];
        let v = truncate_utf8(&i.value, 254 - p.len());
        out.push((1 + p.len() + v.len()) as u8);
        out.push(p.len() as u8);
        out.extend_from_slice(p);
        out.extend_from_slice(v);
    } else {
        let v = truncate_utf8(&i.value, 255);
        out.push(v.len() as u8);
        out.extend_from_slice(v);
    }
}

pub fn encode_chunk(out: &mut Vec<u8>, c: &Chunk) {
    let at = out.len();
    out.extend_from_slice(&c.ssrc.to_be_bytes());
    for i in &c.items {
        encode_item(out, i);
    }
    out.push(0);
    zero_fill(out, at);
}

fn encode_fci(out: &mut Vec<u8>, f: &Fci) -> u8 {
    match f {
        Fci::Nack { seqs } => {
            let mut s = seqs.clone();
            s.sort_unstable();
            s.dedup();
            let mut i = 0;
            while i < s.len() {
                let pid = s[i];
                let mut blp = 0u16;
                i += 1;
                while i < s.len() && s[i] - pid <= 16 {
                    blp |= 1 << (s[i] - pid - 1);
                    i += 1;
                }
                out.extend_from_slice(&pid.to_be_bytes());
                out.extend_from_slice(&blp.to_be_bytes());
            }
            1
        }
        Fci::Fir { entries } => {
            for (s, q) in entries {
                out.extend_from_slice(&s.to_be_bytes());
                out.extend_from_slice(&[*q, 0, 0, 0]);
            }
            4
        }
        Fci::Sli { entries } => {
            for (first, num, pic) in entries {
                let w = ((*first as u32 & 0x1fff) << 19) | ((*num as u32 & 0x1fff) << 6) | (*pic as u32 & 0x3f);
                out.extend_from_slice(&w.to_be_bytes());
            }
            2
        }
        Fci::Rpsi { pt, bits, overrun } => {
            let at = out.len();
            out.push(0);
            out.push(pt & 0x7f);
            out.extend_from_slice(bits);
            let ov = if bits.is_empty() { 0 } else { (*overrun).min(8) };
            if ov > 0 {
                let last = out.len() - 1;
                out[last] &= !(((1u16 << ov) - 1) as u8);
            }
            zero_fill(out, at);
            let pad_bytes = out.len() - at - 2 - bits.len();
            out[at] = (8 * pad_bytes) as u8 + ov;
            3
        }
        Fci::Pli => 1,
    }
}

/// RFC image of a spec; `None` for part builders (not packets).
pub fn encode(spec: &Spec) -> Option<Vec<u8>> {
    let mut out = Vec::new();
    encode_into(spec, &mut out)?;
    Some(out)
}

fn encode_into(spec: &Spec, out: &mut Vec<u8>) -> Option<()> {
    let p = |x: u8| x & !3;
    match spec {
        Spec::Sr { ssrc, ntp, rtp, pc, oc, blocks: b, padding } => {
            let at = header(out, p(*padding) > 0, b.len().min(31) as u8, 200);
            out.extend_from_slice(&ssrc.to_be_bytes());
            out.extend_from_slice(&ntp.to_be_bytes());
            out.extend_from_slice(&rtp.to_be_bytes());
            out.extend_from_slice(&pc.to_be_bytes());
            out.extend_from_slice(&oc.to_be_bytes());
            blocks(out, b);
            finish(out, at, *padding);
        }
        Spec::Rr { ssrc, blocks: b, padding } => {
            let at = header(out, p(*padding) > 0, b.len().min(31) as u8, 201);
            out.extend_from_slice(&ssrc.to_be_bytes());
            blocks(out, b);
            finish(out, at, *padding);
        }
        Spec::Sdes { chunks, padding } => {
            let at = header(out, p(*padding) > 0, chunks.len().min(31) as u8, 202);
            for c in chunks.iter().take(31) {
                encode_chunk(out, c);
            }
            finish(out, at, *padding);
        }
        Spec::Bye { sources, reason, padding } => {
            let at = header(out, p(*padding) > 0, sources.len().min(31) as u8, 203);
            for s in sources.iter().take(31) {
                out.extend_from_slice(&s.to_be_bytes());
            }
            if !reason.is_empty() {
                let r = truncate_utf8(reason, 255);
                out.push(r.len() as u8);
                out.extend_from_slice(r);
                zero_fill(out, at);
            }
            finish(out, at, *padding);
        }
        Spec::App { ssrc, subtype, name, data, padding } => {
            let at = header(out, p(*padding) > 0, *subtype & 31, 204);
            out.extend_from_slice(&ssrc.to_be_bytes());
            let mut n = [0u8; 4];
            for (k, b) in name.bytes().filter(|b| b.is_ascii()).take(4).enumerate() {
                n[k] = b;
            }
            out.extend_from_slice(&n);
            out.extend_from_slice(&data[..data.len() & !3]);
            finish(out, at, *padding);
        }
        Spec::Unknown { pt, count, data, padding } => {
            let at = header(out, p(*padding) > 0, *count & 31, *pt);
            out.extend_from_slice(&data[..data.len() & !3]);
            finish(out, at, *padding);
        }
        Spec::Third { pt, count, ssrc, payload, padding } => {
            let at = header(out, p(*padding) > 0, *count & 31, *pt);
            out.extend_from_slice(&ssrc.to_be_bytes());
            out.extend_from_slice(&payload[..payload.len() & !3]);
            finish(out, at, *padding);
        }
        Spec::Fb { kind, sender, media, fci, padding } => {
            let at = header(out, p(*padding) > 0, 0, if *kind == FbKind::Transport { 205 } else { 206 });
            out.extend_from_slice(&sender.to_be_bytes());
            out.extend_from_slice(&media.to_be_bytes());
            let fmt = encode_fci(out, fci);
            out[at] |= fmt;
            finish(out, at, *padding);
        }
        Spec::Compound { members } => {
            for m in members {
                encode_into(m, out)?;
            }
        }
        Spec::Pb(i) => encode_into(i, out)?,
        Spec::ChunkOnly(_) | Spec::ItemOnly(_) | Spec::FciOnly(_) => return None,
    }
    Some(())
}
