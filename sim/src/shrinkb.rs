//! Candidate simplifications of a delivered byte string (used by the minimiser of the
//! receiver-side properties).  Most aggressive first.

use crate::faults::tiles;

fn refit(mut d: Vec<u8>) -> Vec<u8> {
    // make a single tile span the whole (aligned) string
    if d.len() >= 4 && d.len() % 4 == 0 {
        let w = (d.len() / 4 - 1).min(0xffff) as u16;
        d[2..4].copy_from_slice(&w.to_be_bytes());
    }
    d
}

pub fn shrink_bytes(d: &[u8]) -> Vec<Vec<u8>> {
    let mut out: Vec<Vec<u8>> = Vec::new();
    if d.is_empty() {
        return out;
    }
    let ts = tiles(d);
    if ts.len() > 1 {
        for (o, l) in ts.iter() {
            out.push(d[*o..*o + *l].to_vec());
        }
        // drop one tile
        if ts.len() <= 16 {
            for (o, l) in ts.iter() {
                let mut v = d[..*o].to_vec();
                v.extend_from_slice(&d[*o + *l..]);
                out.push(v);
            }
        }
    }
    out.push(Vec::new());
    for n in [d.len() / 2, d.len().saturating_sub(64), d.len().saturating_sub(4), d.len() - 1] {
        if n < d.len() {
            out.push(d[..n].to_vec());
            out.push(refit(d[..n].to_vec()));
        }
    }
    if d.len() > 8 {
        out.push(d[d.len() / 2..].to_vec());
    }
    // remove one aligned word, with and without refitting the first length field
    let words = d.len() / 4;
    if words <= 300 {
        for k in (1..words).rev() {
            let mut v = d[..4 * k].to_vec();
            v.extend_from_slice(&d[4 * k + 4..]);
            out.push(refit(v.clone()));
            out.push(v);
        }
    }
    // simplify single bytes
    if d.len() <= 512 {
        for i in 0..d.len() {
            if d[i] != 0 {
                let mut v = d.to_vec();
                v[i] = 0;
                out.push(v);
                if d[i] > 1 {
                    let mut v = d.to_vec();
                    v[i] = 1;
                    out.push(v);
                }
            }
        }
    }
    out.retain(|v| v.as_slice() != d);
    out
}

pub fn shrink_tape(t: &[u32]) -> Vec<Vec<u32>> {
    let mut out = Vec::new();
    if t.is_empty() {
        return out;
    }
    out.push(Vec::new());
    out.push(t[..t.len() / 2].to_vec());
    out.push(t[..t.len() - 1].to_vec());
    if t.len() <= 64 {
        for i in 0..t.len() {
            if t[i] != 0 {
                let mut v = t.to_vec();
                v[i] = 0;
                out.push(v);
            }
        }
        for i in 0..t.len() {
            let mut v = t.to_vec();
            v.remove(i);
            out.push(v);
        }
    }
    out.retain(|v| v.as_slice() != t);
    out
}
