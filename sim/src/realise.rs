//! From abstract specs to the REAL builders of rtcp-types, call by call.
//!
//! `plan(spec, tape)` turns a spec into an explicit builder call history (a `Plan`);
//! an all-zero tape gives the canonical history (fixed setter order, borrowed variants,
//! bare builder).  `model(plan)` applies the history to the reference model (setters
//! overwrite, adds append, NACK adds union, FIR adds last-write-wins) and must give the
//! spec back (harness self-check).  `realise(plan, ..)` executes the history against the
//! real builders.

use crate::spec::*;
use crate::tape::Tape;
use rtcp_types::prelude::*;
use rtcp_types::*;
use std::borrow::Cow;

#[derive(Clone, Copy, Debug, PartialEq, Eq)]
pub enum StrForm {
    Str,
    String,
    CowBorrowed,
    CowOwned,
}
#[derive(Clone, Copy, Debug, PartialEq, Eq)]
pub enum BytesForm {
    Slice,
    Vec,
}

#[derive(Clone, Debug)]
pub struct RbPlan {
    pub ssrc: u32,
    /// (field, value): 0 fraction_lost, 1 cumulative_lost, 2 ext seq, 3 jitter, 4 lsr, 5 dlsr
    pub calls: Vec<(u8, u32)>,
}

#[derive(Clone, Debug)]
pub enum ItemStep {
    Prefix(Vec<u8>, BytesForm),
    IntoOwned,
}
#[derive(Clone, Debug)]
pub struct ItemPlan {
    pub ty: u8,
    pub value: String,
    pub form: StrForm,
    pub steps: Vec<ItemStep>,
}
#[derive(Clone, Debug)]
pub struct ChunkPlan {
    pub ssrc: u32,
    /// (item, add_item_owned?)
    pub items: Vec<(ItemPlan, bool)>,
}

#[derive(Clone, Debug)]
pub enum RpsiStep {
    Pt(u8),
    Data { bits: Vec<u8>, overrun: u8, form: BytesForm, owned: bool },
}
#[derive(Clone, Debug)]
pub enum FciPlan {
    Nack(Vec<u16>),
    Fir(Vec<(u32, u8)>),
    Sli(Vec<(u16, u16, u8)>),
    Rpsi(Vec<RpsiStep>),
    Pli,
}

#[derive(Clone, Debug)]
pub enum Op {
    Padding(u8),
    Ntp(u64),
    Rtp(u32),
    Pc(u32),
    Oc(u32),
    Block(RbPlan),
    Source(u32),
    Reason { text: String, form: StrForm, owned: bool },
    Subtype(u8),
    AppData(Vec<u8>),
    Count(u8),
    Sender(u32),
    Media(u32),
    Chunk(ChunkPlan),
}

#[derive(Clone, Debug)]
pub enum Ctor {
    Sr(u32),
    Rr(u32),
    Sdes,
    Bye,
    App(u32, String),
    Unknown(u8, Vec<u8>),
    Fb { kind: FbKind, fci: FciPlan, owned: bool },
}

#[derive(Clone, Debug)]
pub struct PacketPlan {
    pub ctor: Ctor,
    pub ops: Vec<Op>,
}

#[derive(Clone, Debug)]
pub enum Plan {
    Packet(PacketPlan),
    Pb(PacketPlan),
    Third { pt: u8, count: u8, ssrc: u32, payload: Vec<u8>, padding: u8 },
    Compound(Vec<Plan>),
    Chunk(ChunkPlan),
    Item(ItemPlan),
    Fci(FciPlan),
}

// ---------------------------------------------------------------------------------------
// spec -> plan (history generation driven by a tape; zero tape = canonical)
// ---------------------------------------------------------------------------------------

fn str_form(t: &mut Tape) -> StrForm {
    [StrForm::Str, StrForm::String, StrForm::CowBorrowed, StrForm::CowOwned][t.choose(4)]
}
fn bytes_form(t: &mut Tape) -> BytesForm {
    [BytesForm::Slice, BytesForm::Vec][t.choose(2)]
}

/// Number of stale (later overwritten) calls before the final one: 0 on a zero tape.
fn stale_count(t: &mut Tape) -> usize {
    match t.choose(8) {
        0..=4 => 0,
        5 | 6 => 1,
        _ => 2 + t.choose(2),
    }
}

/// Interleave several queues of ops, keeping the order inside each queue.
/// Zero tape: queue after queue (canonical order).
fn interleave(mut queues: Vec<Vec<Op>>, t: &mut Tape) -> Vec<Op> {
    for q in queues.iter_mut() {
        q.reverse();
    }
    let mut out = Vec::new();
    loop {
        queues.retain(|q| !q.is_empty());
        if queues.is_empty() {
            return out;
        }
        let k = t.choose(queues.len());
        out.push(queues[k].pop().unwrap());
    }
}

/// A scalar setter: optional stale calls then the final value.  When the final value is
/// the builder's default and there are no stale calls, the call may be left out entirely.
fn scalar<V: Copy + PartialEq>(v: V, default: V, t: &mut Tape, stale: impl Fn(u32) -> V, mk: impl Fn(V) -> Op) -> Vec<Op> {
    let n = stale_count(t);
    let mut q = Vec::new();
    for _ in 0..n {
        q.push(mk(stale(t.value())));
    }
    if n == 0 && v == default && t.flag(1, 3) {
        return q;
    }
    q.push(mk(v));
    q
}

fn plan_rb(b: &Rb, t: &mut Tape) -> RbPlan {
    let vals = [b.fraction as u32, b.cum_lost, b.ext_seq, b.jitter, b.lsr, b.dlsr];
    let mut queues: Vec<Vec<(u8, u32)>> = Vec::new();
    for (f, v) in vals.iter().enumerate() {
        let n = stale_count(t);
        let mut q = Vec::new();
        for _ in 0..n {
            let s = t.value();
            // (an out-of-range cumulative-lost value in one stale call out of three)
            q.push((f as u8, if f == 0 { s & 0xff } else if f == 1 && (s >> 28) % 3 != 0 { s & 0xff_ffff } else if f == 1 { s | 0x0100_0000 } else { s }));
        }
        if !(n == 0 && *v == 0 && t.flag(1, 3)) {
            q.push((f as u8, *v));
        }
        queues.push(q);
    }
    for q in queues.iter_mut() {
        q.reverse();
    }
    let mut calls = Vec::new();
    loop {
        queues.retain(|q| !q.is_empty());
        if queues.is_empty() {
            break;
        }
        let k = t.choose(queues.len());
        calls.push(queues[k].pop().unwrap());
    }
    RbPlan { ssrc: b.ssrc, calls }
}

pub fn plan_item(i: &Item, t: &mut Tape) -> ItemPlan {
    let form = [StrForm::Str, StrForm::String, StrForm::CowBorrowed, StrForm::CowOwned][t.choose(4)];
    let mut steps = Vec::new();
    let n_stale = stale_count(t);
    if t.flag(1, 4) {
        steps.push(ItemStep::IntoOwned);
    }
    for _ in 0..n_stale {
        // stale prefixes: short, or at / beyond what a PRIV item can hold (overwritten later)
        let len = [0usize, 1, 2, 3, 4, 5, 254, 255, 260][t.choose(9)];
        let v = t.value().to_le_bytes();
        steps.push(ItemStep::Prefix(v.iter().cycle().take(len).copied().collect(), bytes_form(t)));
        if t.flag(1, 6) {
            steps.push(ItemStep::IntoOwned);
        }
    }
    if !i.prefix.is_empty() || n_stale > 0 || t.flag(1, 4) {
        steps.push(ItemStep::Prefix(i.prefix.clone(), bytes_form(t)));
    }
    if t.flag(1, 3) {
        steps.push(ItemStep::IntoOwned);
    }
    ItemPlan { ty: i.ty, value: i.value.clone(), form, steps }
}

pub fn plan_chunk(c: &Chunk, t: &mut Tape) -> ChunkPlan {
    ChunkPlan { ssrc: c.ssrc, items: c.items.iter().map(|i| (plan_item(i, t), t.flag(1, 2))).collect() }
}

/// Fisher-Yates driven by the tape; a zero tape leaves the order unchanged.
fn tape_shuffle<T>(xs: &mut [T], t: &mut Tape) {
    for i in (1..xs.len()).rev() {
        let j = i - t.choose(i + 1);
        xs.swap(i, j);
    }
}

fn plan_fci(f: &Fci, t: &mut Tape) -> FciPlan {
    match f {
        Fci::Nack { seqs } => {
            let mut adds = seqs.clone();
            // re-add some numbers (idempotent under the model)
            let dup = if seqs.is_empty() { 0 } else { [0, 0, 0, 1, 2, 3][t.choose(6)] };
            for _ in 0..dup {
                adds.push(seqs[t.choose(seqs.len())]);
            }
            tape_shuffle(&mut adds, t);
            FciPlan::Nack(adds)
        }
        Fci::Fir { entries } => {
            // with duplicated ssrcs in a (non-normalised) spec, keep the spec's own order
            let mut uniq: Vec<u32> = entries.iter().map(|e| e.0).collect();
            uniq.sort_unstable();
            uniq.dedup();
            if uniq.len() != entries.len() {
                return FciPlan::Fir(entries.clone());
            }
            // the rare very large maps (the fix-up below is quadratic) get a linear history: up to two
            // entries far into the map are first added with a stale sequence and added again, with
            // the final one, after everything else
            if entries.len() > 512 {
                let mut adds = entries.clone();
                let n = entries.len();
                for _ in 0..t.choose(3) {
                    let k = match t.choose(4) {
                        0 => n - 1,
                        1 => n / 2 + 1,
                        2 => 8200.min(n - 1),
                        _ => t.value() as usize % n,
                    };
                    adds[k].1 = entries[k].1.wrapping_add(1);
                    adds.push(entries[k]);
                }
                return FciPlan::Fir(adds);
            }
            // stale (ssrc, other sequence) adds, then shuffle the positions, then make sure the
            // final value of each ssrc sits at that ssrc's last position
            let mut adds: Vec<(u32, u8)> = Vec::new();
            for (s, q) in entries {
                for _ in 0..stale_count(t) {
                    // stale sequences include the values a map slot may confuse with "absent"
                    let v = t.value();
                    adds.push((*s, [v as u8, 0, 0xff, q.wrapping_add(1)][(v >> 8) as usize % 4]));
                }
                adds.push((*s, *q));
            }
            tape_shuffle(&mut adds, t);
            for (s, q) in entries {
                let last = adds.iter().rposition(|a| a.0 == *s).unwrap();
                if let Some(cur) = adds.iter().position(|a| a.0 == *s && a.1 == *q) {
                    let tmp = adds[last].1;
                    adds[last].1 = *q;
                    if cur != last {
                        adds[cur].1 = tmp;
                    }
                }
                adds[last].1 = *q;
            }
            FciPlan::Fir(adds)
        }
        Fci::Sli { entries } => FciPlan::Sli(entries.clone()),
        Fci::Rpsi { pt, bits, overrun } => {
            let mut qpt = Vec::new();
            let n = stale_count(t);
            for _ in 0..n {
                qpt.push(RpsiStep::Pt(t.value() as u8));
            }
            if !(n == 0 && *pt == 0 && t.flag(1, 3)) {
                qpt.push(RpsiStep::Pt(*pt));
            }
            let mut qd = Vec::new();
            let n = stale_count(t);
            for _ in 0..n {
                let len = t.choose(7);
                let v = t.value().to_le_bytes();
                // (stale overruns up to 11: more than the 8 bits of a byte is invalid, and overwritten)
                qd.push(RpsiStep::Data { bits: v.iter().cycle().take(len).copied().collect(), overrun: t.choose(12) as u8, form: bytes_form(t), owned: t.flag(1, 2) });
            }
            if !(n == 0 && bits.is_empty() && *overrun == 0 && t.flag(1, 3)) {
                qd.push(RpsiStep::Data { bits: bits.clone(), overrun: *overrun, form: bytes_form(t), owned: t.flag(1, 2) });
            }
            qpt.reverse();
            qd.reverse();
            let mut steps = Vec::new();
            while !qpt.is_empty() || !qd.is_empty() {
                let take_pt = if qpt.is_empty() {
                    false
                } else if qd.is_empty() {
                    true
                } else {
                    t.choose(2) == 0
                };
                steps.push(if take_pt { qpt.pop().unwrap() } else { qd.pop().unwrap() });
            }
            FciPlan::Rpsi(steps)
        }
        Fci::Pli => FciPlan::Pli,
    }
}

fn stale_string(t: &mut Tape) -> String {
    // mostly short; sometimes at / beyond the 255-byte limit (an invalid value that is overwritten)
    let n = [0usize, 1, 2, 3, 4, 5, 7, 8, 255, 256, 300][t.choose(11)];
    let v = t.value();
    (0..n).map(|k| (b'a' + ((v >> (k % 4 * 8)) as u8 % 26)) as char).collect()
}

/// History for one of the eight built-in packet kinds.
pub fn plan_packet(s: &Spec, t: &mut Tape) -> Option<PacketPlan> {
    // stale (overwritten) values include INVALID ones: the last call must win completely
    let padq = |p: u8, t: &mut Tape| scalar(p, 0u8, t, |v| if (v >> 8) % 4 == 0 { v as u8 | 1 } else { (v as u8) & !3 }, Op::Padding);
    Some(match s {
        Spec::Sr { ssrc, ntp, rtp, pc, oc, blocks, padding } => {
            let queues = vec![
                padq(*padding, t),
                scalar(*ntp, 0u64, t, |v| (v as u64) << 17 | v as u64, Op::Ntp),
                scalar(*rtp, 0u32, t, |v| v, Op::Rtp),
                scalar(*pc, 0u32, t, |v| v, Op::Pc),
                scalar(*oc, 0u32, t, |v| v, Op::Oc),
                blocks.iter().map(|b| Op::Block(plan_rb(b, t))).collect(),
            ];
            PacketPlan { ctor: Ctor::Sr(*ssrc), ops: interleave(queues, t) }
        }
        Spec::Rr { ssrc, blocks, padding } => {
            let queues = vec![padq(*padding, t), blocks.iter().map(|b| Op::Block(plan_rb(b, t))).collect()];
            PacketPlan { ctor: Ctor::Rr(*ssrc), ops: interleave(queues, t) }
        }
        Spec::Sdes { chunks, padding } => {
            let queues = vec![padq(*padding, t), chunks.iter().map(|c| Op::Chunk(plan_chunk(c, t))).collect()];
            PacketPlan { ctor: Ctor::Sdes, ops: interleave(queues, t) }
        }
        Spec::Bye { sources, reason, padding } => {
            let mut rq = Vec::new();
            let n = stale_count(t);
            for _ in 0..n {
                rq.push(Op::Reason { text: stale_string(t), form: str_form(t), owned: t.flag(1, 2) });
            }
            if !(n == 0 && reason.is_empty() && t.flag(2, 3)) {
                rq.push(Op::Reason { text: reason.clone(), form: str_form(t), owned: t.flag(1, 2) });
            }
            // canonical order: sources, padding, reason  (reason last so that the zero tape is the suite's order reversed:
            // the owned conversion then sits AFTER sources and padding, where a forgotten field shows)
            let queues = vec![sources.iter().map(|s| Op::Source(*s)).collect(), padq(*padding, t), rq];
            PacketPlan { ctor: Ctor::Bye, ops: interleave(queues, t) }
        }
        Spec::App { ssrc, subtype, name, data, padding } => {
            let mut dq = Vec::new();
            let n = stale_count(t);
            for _ in 0..n {
                // stale payloads include invalid (unaligned) ones: a later valid call must win
                let len = [0usize, 4, 8, 12, 1, 2, 3, 5, 7][t.choose(9)];
                let v = t.value().to_le_bytes();
                dq.push(Op::AppData(v.iter().cycle().take(len).copied().collect()));
            }
            if !(n == 0 && data.is_empty() && t.flag(1, 3)) {
                dq.push(Op::AppData(data.clone()));
            }
            let queues = vec![padq(*padding, t), scalar(*subtype, 0u8, t, |v| if (v >> 8) % 4 == 0 { v as u8 | 32 } else { v as u8 & 31 }, Op::Subtype), dq];
            PacketPlan { ctor: Ctor::App(*ssrc, name.clone()), ops: interleave(queues, t) }
        }
        Spec::Unknown { pt, count, data, padding } => {
            let queues = vec![padq(*padding, t), scalar(*count, 0u8, t, |v| if (v >> 8) % 4 == 0 { v as u8 | 32 } else { v as u8 & 31 }, Op::Count)];
            PacketPlan { ctor: Ctor::Unknown(*pt, data.clone()), ops: interleave(queues, t) }
        }
        Spec::Fb { kind, sender, media, fci, padding } => {
            let fp = plan_fci(fci, t);
            let owned = t.flag(1, 2);
            let queues = vec![padq(*padding, t), scalar(*sender, 0u32, t, |v| v, Op::Sender), scalar(*media, 0u32, t, |v| v, Op::Media)];
            PacketPlan { ctor: Ctor::Fb { kind: *kind, fci: fp, owned }, ops: interleave(queues, t) }
        }
        _ => return None,
    })
}

/// Canonical plan of any spec (zero tape everywhere).
pub fn plan_canonical(s: &Spec) -> Plan {
    let mut t = Tape::canonical();
    plan_with(s, &mut t)
}

/// Plan of any spec with tape-driven histories in every packet.
pub fn plan_with(s: &Spec, t: &mut Tape) -> Plan {
    match s {
        Spec::Third { pt, count, ssrc, payload, padding } => Plan::Third { pt: *pt, count: *count, ssrc: *ssrc, payload: payload.clone(), padding: *padding },
        Spec::Compound { members } => Plan::Compound(members.iter().map(|m| plan_with(m, t)).collect()),
        Spec::Pb(i) => match plan_packet(i, t) {
            Some(p) => Plan::Pb(p),
            None => plan_with(i, t),
        },
        Spec::ChunkOnly(c) => Plan::Chunk(plan_chunk(c, t)),
        Spec::ItemOnly(i) => Plan::Item(plan_item(i, t)),
        Spec::FciOnly(f) => Plan::Fci(plan_fci(f, t)),
        other => Plan::Packet(plan_packet(other, t).expect("packet kind")),
    }
}

// ---------------------------------------------------------------------------------------
// plan -> spec (the reference model)
// ---------------------------------------------------------------------------------------

fn model_rb(p: &RbPlan) -> Rb {
    let mut b = Rb { ssrc: p.ssrc, ..Rb::default() };
    for (f, v) in &p.calls {
        match f {
            0 => b.fraction = *v as u8,
            1 => b.cum_lost = *v,
            2 => b.ext_seq = *v,
            3 => b.jitter = *v,
            4 => b.lsr = *v,
            _ => b.dlsr = *v,
        }
    }
    b
}

pub fn model_item(p: &ItemPlan) -> Item {
    let mut prefix = Vec::new();
    for s in &p.steps {
        if let ItemStep::Prefix(v, _) = s {
            prefix = v.clone();
        }
    }
    Item { ty: p.ty, prefix, value: p.value.clone() }
}

pub fn model_chunk(p: &ChunkPlan) -> Chunk {
    Chunk { ssrc: p.ssrc, items: p.items.iter().map(|(i, _)| model_item(i)).collect() }
}

fn model_fci(p: &FciPlan) -> Fci {
    let mut f = match p {
        FciPlan::Nack(v) => Fci::Nack { seqs: v.clone() },
        FciPlan::Fir(v) => Fci::Fir { entries: v.clone() },
        FciPlan::Sli(v) => Fci::Sli { entries: v.clone() },
        FciPlan::Rpsi(steps) => {
            let (mut pt, mut bits, mut overrun) = (0u8, Vec::new(), 0u8);
            for s in steps {
                match s {
                    RpsiStep::Pt(v) => pt = *v,
                    RpsiStep::Data { bits: b, overrun: o, .. } => {
                        bits = b.clone();
                        overrun = *o;
                    }
                }
            }
            Fci::Rpsi { pt, bits, overrun }
        }
        FciPlan::Pli => Fci::Pli,
    };
    f.normalise();
    f
}

pub fn model_packet(p: &PacketPlan) -> Spec {
    let mut padding = 0u8;
    let (mut ntp, mut rtp, mut pc, mut oc) = (0u64, 0u32, 0u32, 0u32);
    let mut blocks = Vec::new();
    let mut sources = Vec::new();
    let mut reason = String::new();
    let mut subtype = 0u8;
    let mut data = Vec::new();
    let mut count = 0u8;
    let (mut sender, mut media) = (0u32, 0u32);
    let mut chunks = Vec::new();
    for op in &p.ops {
        match op {
            Op::Padding(v) => padding = *v,
            Op::Ntp(v) => ntp = *v,
            Op::Rtp(v) => rtp = *v,
            Op::Pc(v) => pc = *v,
            Op::Oc(v) => oc = *v,
            Op::Block(b) => blocks.push(model_rb(b)),
            Op::Source(s) => sources.push(*s),
            Op::Reason { text, .. } => reason = text.clone(),
            Op::Subtype(v) => subtype = *v,
            Op::AppData(v) => data = v.clone(),
            Op::Count(v) => count = *v,
            Op::Sender(v) => sender = *v,
            Op::Media(v) => media = *v,
            Op::Chunk(c) => chunks.push(model_chunk(c)),
        }
    }
    match &p.ctor {
        Ctor::Sr(ssrc) => Spec::Sr { ssrc: *ssrc, ntp, rtp, pc, oc, blocks, padding },
        Ctor::Rr(ssrc) => Spec::Rr { ssrc: *ssrc, blocks, padding },
        Ctor::Sdes => Spec::Sdes { chunks, padding },
        Ctor::Bye => Spec::Bye { sources, reason, padding },
        Ctor::App(ssrc, name) => Spec::App { ssrc: *ssrc, subtype, name: name.clone(), data, padding },
        Ctor::Unknown(pt, d) => Spec::Unknown { pt: *pt, count, data: d.clone(), padding },
        Ctor::Fb { kind, fci, .. } => Spec::Fb { kind: *kind, sender, media, fci: model_fci(fci), padding },
    }
}

pub fn model(p: &Plan) -> Spec {
    match p {
        Plan::Packet(pp) => model_packet(pp),
        Plan::Pb(pp) => Spec::Pb(Box::new(model_packet(pp))),
        Plan::Third { pt, count, ssrc, payload, padding } => Spec::Third { pt: *pt, count: *count, ssrc: *ssrc, payload: payload.clone(), padding: *padding },
        Plan::Compound(ms) => Spec::Compound { members: ms.iter().map(model).collect() },
        Plan::Chunk(c) => Spec::ChunkOnly(model_chunk(c)),
        Plan::Item(i) => Spec::ItemOnly(model_item(i)),
        Plan::Fci(f) => Spec::FciOnly(model_fci(f)),
    }
}

// ---------------------------------------------------------------------------------------
// plan -> real builders
// ---------------------------------------------------------------------------------------

/// Third-party packet type defined on the public `utils::writer` helpers.
#[derive(Debug)]
pub struct ThirdW<'a> {
    pt: u8,
    count: u8,
    ssrc: u32,
    payload: &'a [u8],
    padding: u8,
}
pub const RAW_THIRD_PT: u8 = 254;
pub struct ThirdTy;
impl RtcpPacket for ThirdTy {
    const MIN_PACKET_LEN: usize = 8;
    const PACKET_TYPE: u8 = 255;
}
impl<'a> RtcpPacketWriter for ThirdW<'a> {
    fn calculate_size(&self) -> Result<usize, RtcpWriteError> {
        if self.count > ThirdTy::MAX_COUNT {
            return Err(RtcpWriteError::CountOutOfRange { count: self.count, max: ThirdTy::MAX_COUNT });
        }
        utils::writer::check_padding(self.padding)?;
        // packet type 254 marks the "raw" flavour of this stub: a third-party writer that does not
        // insist on 32-bit alignment (the trait does not demand it) and announces an odd size
        if self.payload.len() % 4 != 0 && self.pt != RAW_THIRD_PT {
            return Err(RtcpWriteError::DataLen32bitMultiple(self.payload.len()));
        }
        Ok(ThirdTy::MIN_PACKET_LEN + self.payload.len() + self.padding as usize)
    }
    fn write_into_unchecked(&self, buf: &mut [u8]) -> usize {
        utils::writer::write_header_unchecked::<ThirdTy>(self.padding, self.count, buf);
        buf[1] = self.pt;
        buf[4..8].copy_from_slice(&self.ssrc.to_be_bytes());
        let mut end = 8 + self.payload.len();
        buf[8..end].copy_from_slice(self.payload);
        end += utils::writer::write_padding_unchecked(self.padding, &mut buf[end..]);
        end
    }
    fn get_padding(&self) -> Option<u8> {
        if self.padding == 0 {
            None
        } else {
            Some(self.padding)
        }
    }
}

// ---------------------------------------------------------------------------------------
// observation probes: a caller may ask an unfinished builder for its size (or even write it)
// between two configuration calls.  That must not change what the finished builder produces.
// The probe positions are a 64-bit mask (from the tape / the episode PRNG), kept thread-local
// so that the plan data model stays a pure description of configuration calls.
// ---------------------------------------------------------------------------------------

thread_local! {
    static PROBES: std::cell::Cell<(u64, u32)> = const { std::cell::Cell::new((0, 0)) };
}

fn set_probes(mask: u64) {
    PROBES.with(|p| p.set((mask, 0)));
}

fn probe_due() -> (bool, bool) {
    PROBES.with(|p| {
        let (m, c) = p.get();
        if m == 0 {
            return (false, false);
        }
        p.set((m, c.wrapping_add(1)));
        ((m >> (c % 64)) & 1 == 1, (m >> ((c + 7) % 64)) & 1 == 1)
    })
}

thread_local! {
    static CTORS: std::cell::Cell<(u64, u32)> = const { std::cell::Cell::new((0, 0)) };
}

fn set_ctor_forms(mask: u64) {
    CTORS.with(|p| p.set((mask, 0)));
}

/// Which constructor form the next builder uses: `X::builder(..)` (false, canonical) or its
/// public sibling (`XBuilder::new(..)` / `XBuilder::default()`).
fn alt_ctor() -> bool {
    CTORS.with(|p| {
        let (m, c) = p.get();
        if m == 0 {
            return false;
        }
        p.set((m, c.wrapping_add(1)));
        (m >> (c % 64)) & 1 == 1
    })
}

fn probe<W: RtcpPacketWriter>(w: &W) {
    let (size, write) = probe_due();
    if size {
        let _ = crate::guard::guarded(|| w.calculate_size().is_ok());
        if !write {
            // RtcpPacketWriter: Debug — rendering an unfinished builder is an observation too
            let _ = crate::guard::guarded(|| format!("{w:?}").len());
        }
        if write {
            let mut scratch = [0u8; 192];
            let _ = crate::guard::guarded(|| w.write_into(&mut scratch).is_ok());
        }
    }
}

fn probe_chunk(c: &SdesChunkBuilder<'_>) {
    let (size, _) = probe_due();
    if size {
        let mut scratch = [0u8; 192];
        let _ = crate::guard::guarded(|| c.write_into(&mut scratch).is_ok());
    }
}

/// Concretely typed FCI builders kept alive while a borrowing feedback builder exists.
pub enum FciAny<'a> {
    Nack(NackBuilder),
    Fir(FirBuilder),
    Sli(SliBuilder),
    Rpsi(RpsiBuilder<'a>),
    Pli(PliBuilder),
}

fn build_nack(v: &[u16]) -> NackBuilder {
    let mut b = if alt_ctor() { NackBuilder::default() } else { Nack::builder() };
    for s in v {
        b = b.add_rtp_sequence(*s);
        probe(&b);
    }
    b
}
fn build_fir(v: &[(u32, u8)]) -> FirBuilder {
    let mut b = if alt_ctor() { FirBuilder::default() } else { Fir::builder() };
    for (s, q) in v {
        b = b.add_ssrc(*s, *q);
        if v.len() <= 64 {
            probe(&b);
        }
    }
    b
}
fn build_sli(v: &[(u16, u16, u8)]) -> SliBuilder {
    let mut b = Sli::builder();
    for (a, c, p) in v {
        b = b.add_lost_macroblock(*a, *c, *p);
        probe(&b);
    }
    b
}
fn build_rpsi<'a>(steps: &'a [RpsiStep]) -> RpsiBuilder<'a> {
    let mut b: RpsiBuilder<'a> = if alt_ctor() { RpsiBuilder::default() } else { Rpsi::builder() };
    for s in steps {
        b = match s {
            RpsiStep::Pt(v) => b.payload_type(*v),
            RpsiStep::Data { bits, overrun, form, owned } => match (form, owned) {
                (BytesForm::Slice, false) => b.native_data(bits.as_slice(), *overrun),
                (BytesForm::Vec, false) => b.native_data(bits.clone(), *overrun),
                (BytesForm::Slice, true) => b.native_data_owned(bits.as_slice(), *overrun),
                (BytesForm::Vec, true) => b.native_data_owned(bits.clone(), *overrun),
            },
        };
        probe(&b);
    }
    b
}
/// Same history, but every data call uses an owning form so that the result is 'static
/// (required by `builder_owned`).
fn build_rpsi_static(steps: &[RpsiStep]) -> RpsiBuilder<'static> {
    let mut b: RpsiBuilder<'static> = if alt_ctor() { RpsiBuilder::default() } else { Rpsi::builder() };
    for s in steps {
        b = match s {
            RpsiStep::Pt(v) => b.payload_type(*v),
            RpsiStep::Data { bits, overrun, owned, .. } => {
                if *owned {
                    b.native_data_owned(bits.clone(), *overrun)
                } else {
                    b.native_data(bits.clone(), *overrun)
                }
            }
        };
    }
    b
}

fn build_fci_any<'a>(fci: &'a FciPlan) -> FciAny<'a> {
    match fci {
        FciPlan::Nack(v) => FciAny::Nack(build_nack(v)),
        FciPlan::Fir(v) => FciAny::Fir(build_fir(v)),
        FciPlan::Sli(v) => FciAny::Sli(build_sli(v)),
        FciPlan::Rpsi(v) => FciAny::Rpsi(build_rpsi(v)),
        FciPlan::Pli => FciAny::Pli(Pli::builder()),
    }
}

fn collect_fcis<'a>(p: &'a Plan, out: &mut Vec<FciAny<'a>>) {
    match p {
        Plan::Packet(pp) | Plan::Pb(pp) => {
            if let Ctor::Fb { fci, owned: false, .. } = &pp.ctor {
                out.push(build_fci_any(fci));
            }
        }
        Plan::Compound(ms) => ms.iter().for_each(|m| collect_fcis(m, out)),
        _ => {}
    }
}

pub enum Concrete<'a> {
    Sr(SenderReportBuilder),
    Rr(ReceiverReportBuilder),
    Sdes(SdesBuilder<'a>),
    Bye(ByeBuilder<'a>),
    App(AppBuilder<'a>),
    Unknown(UnknownBuilder<'a>),
    Tfb(TransportFeedbackBuilder<'a>),
    Pfb(PayloadFeedbackBuilder<'a>),
    /// `builder_owned` results are `'static` and feedback builders are invariant in their lifetime
    TfbS(TransportFeedbackBuilder<'static>),
    PfbS(PayloadFeedbackBuilder<'static>),
    PbS(PacketBuilder<'static>),
    Third(ThirdW<'a>),
    Compound(CompoundBuilder<'a>),
    Pb(PacketBuilder<'a>),
    Chunk(SdesChunkBuilder<'a>),
    Item(SdesItemBuilder<'a>),
    /// a stand-alone FCI builder (a public `RtcpPacketWriter` of its own)
    Fci(FciAny<'a>),
}

fn build_rb(p: &RbPlan) -> ReportBlockBuilder {
    let mut b = if alt_ctor() { ReportBlockBuilder::new(p.ssrc) } else { ReportBlock::builder(p.ssrc) };
    for (f, v) in &p.calls {
        b = match f {
            0 => b.fraction_lost(*v as u8),
            1 => b.cumulative_lost(*v),
            2 => b.extended_sequence_number(*v),
            3 => b.interarrival_jitter(*v),
            4 => b.last_sender_report_timestamp(*v),
            _ => b.delay_since_last_sender_report_timestamp(*v),
        };
    }
    b
}

fn build_item<'a>(p: &'a ItemPlan) -> SdesItemBuilder<'a> {
    let mut b: SdesItemBuilder<'a> = match p.form {
        StrForm::Str => SdesItem::builder(p.ty, p.value.as_str()),
        StrForm::String => SdesItemBuilder::new(p.ty, p.value.clone()),
        StrForm::CowBorrowed => SdesItemBuilder::new(p.ty, Cow::Borrowed(p.value.as_str())),
        StrForm::CowOwned => SdesItemBuilder::new(p.ty, Cow::<str>::Owned(p.value.clone())),
    };
    for s in &p.steps {
        b = match s {
            ItemStep::Prefix(v, BytesForm::Slice) => b.prefix(v.as_slice()),
            ItemStep::Prefix(v, BytesForm::Vec) => b.prefix(v.clone()),
            ItemStep::IntoOwned => b.into_owned(),
        };
    }
    b
}

fn build_chunk<'a>(p: &'a ChunkPlan) -> SdesChunkBuilder<'a> {
    let mut c = if alt_ctor() { SdesChunkBuilder::new(p.ssrc) } else { SdesChunk::builder(p.ssrc) };
    for (i, owned) in &p.items {
        c = if *owned { c.add_item_owned(build_item(i)) } else { c.add_item(build_item(i)) };
        probe_chunk(&c);
    }
    c
}

fn build_packet<'a>(pp: &'a PacketPlan, fcis: &'a [FciAny<'a>], next_fci: &mut usize) -> Concrete<'a> {
    match &pp.ctor {
        Ctor::Sr(ssrc) => {
            let mut b = SenderReport::builder(*ssrc);
            for op in &pp.ops {
                b = match op {
                    Op::Padding(v) => b.padding(*v),
                    Op::Ntp(v) => b.ntp_timestamp(*v),
                    Op::Rtp(v) => b.rtp_timestamp(*v),
                    Op::Pc(v) => b.packet_count(*v),
                    Op::Oc(v) => b.octet_count(*v),
                    Op::Block(rb) => b.add_report_block(build_rb(rb)),
                    _ => b,
                };
                probe(&b);
            }
            Concrete::Sr(b)
        }
        Ctor::Rr(ssrc) => {
            let mut b = ReceiverReport::builder(*ssrc);
            for op in &pp.ops {
                b = match op {
                    Op::Padding(v) => b.padding(*v),
                    Op::Block(rb) => b.add_report_block(build_rb(rb)),
                    _ => b,
                };
                probe(&b);
            }
            Concrete::Rr(b)
        }
        Ctor::Sdes => {
            let mut b = if alt_ctor() { SdesBuilder::default() } else { Sdes::builder() };
            for op in &pp.ops {
                b = match op {
                    Op::Padding(v) => b.padding(*v),
                    Op::Chunk(c) => b.add_chunk(build_chunk(c)),
                    _ => b,
                };
                probe(&b);
            }
            Concrete::Sdes(b)
        }
        Ctor::Bye => {
            let mut b: ByeBuilder<'a> = Bye::builder();
            for op in &pp.ops {
                b = match op {
                    Op::Padding(v) => b.padding(*v),
                    Op::Source(s) => b.add_source(*s),
                    Op::Reason { text, form, owned: false } => match form {
                        StrForm::Str => b.reason(text.as_str()),
                        StrForm::String => b.reason(text.clone()),
                        StrForm::CowBorrowed => b.reason(Cow::Borrowed(text.as_str())),
                        StrForm::CowOwned => b.reason(Cow::<str>::Owned(text.clone())),
                    },
                    Op::Reason { text, form, owned: true } => match form {
                        StrForm::Str => b.reason_owned(text.as_str()),
                        StrForm::String => b.reason_owned(text.clone()),
                        StrForm::CowBorrowed => b.reason_owned(Cow::Borrowed(text.as_str())),
                        StrForm::CowOwned => b.reason_owned(Cow::<str>::Owned(text.clone())),
                    },
                    _ => b,
                };
                probe(&b);
            }
            Concrete::Bye(b)
        }
        Ctor::App(ssrc, name) => {
            let mut b = App::builder(*ssrc, name.as_str());
            for op in &pp.ops {
                b = match op {
                    Op::Padding(v) => b.padding(*v),
                    Op::Subtype(v) => b.subtype(*v),
                    Op::AppData(d) => b.data(d.as_slice()),
                    _ => b,
                };
                probe(&b);
            }
            Concrete::App(b)
        }
        Ctor::Unknown(pt, data) => {
            let mut b = if alt_ctor() { UnknownBuilder::new(*pt, data.as_slice()) } else { Unknown::builder(*pt, data.as_slice()) };
            for op in &pp.ops {
                b = match op {
                    Op::Padding(v) => b.padding(*v),
                    Op::Count(v) => b.count(*v),
                    _ => b,
                };
                probe(&b);
            }
            Concrete::Unknown(b)
        }
        Ctor::Fb { kind, fci, owned } => {
            macro_rules! setters {
                ($b:expr) => {{
                    let mut b = $b;
                    for op in &pp.ops {
                        b = match op {
                            Op::Padding(v) => b.padding(*v),
                            Op::Sender(v) => b.sender_ssrc(*v),
                            Op::Media(v) => b.media_ssrc(*v),
                            _ => b,
                        };
                        probe(&b);
                    }
                    b
                }};
            }
            macro_rules! owned_ctor {
                ($ctor:path) => {
                    match fci {
                        FciPlan::Nack(v) => $ctor(build_nack(v)),
                        FciPlan::Fir(v) => $ctor(build_fir(v)),
                        FciPlan::Sli(v) => $ctor(build_sli(v)),
                        FciPlan::Rpsi(v) => $ctor(build_rpsi_static(v)),
                        FciPlan::Pli => $ctor(Pli::builder()),
                    }
                };
            }
            if *owned {
                match kind {
                    FbKind::Transport => Concrete::TfbS(setters!(owned_ctor!(TransportFeedback::builder_owned))),
                    FbKind::Payload => Concrete::PfbS(setters!(owned_ctor!(PayloadFeedback::builder_owned))),
                }
            } else {
                let any = &fcis[*next_fci];
                *next_fci += 1;
                let r: &'a dyn FciBuilder<'a> = match any {
                    FciAny::Nack(b) => b,
                    FciAny::Fir(b) => b,
                    FciAny::Sli(b) => b,
                    FciAny::Rpsi(b) => b,
                    FciAny::Pli(b) => b,
                };
                match kind {
                    FbKind::Transport => Concrete::Tfb(setters!(TransportFeedback::builder(r))),
                    FbKind::Payload => Concrete::Pfb(setters!(PayloadFeedback::builder(r))),
                }
            }
        }
    }
}

fn build<'a>(p: &'a Plan, fcis: &'a [FciAny<'a>], next_fci: &mut usize) -> Concrete<'a> {
    match p {
        Plan::Packet(pp) => build_packet(pp, fcis, next_fci),
        Plan::Pb(pp) => match build_packet(pp, fcis, next_fci) {
            Concrete::Sr(b) => Concrete::Pb(PacketBuilder::from(b)),
            Concrete::Rr(b) => Concrete::Pb(PacketBuilder::from(b)),
            Concrete::Sdes(b) => Concrete::Pb(PacketBuilder::from(b)),
            Concrete::Bye(b) => Concrete::Pb(PacketBuilder::from(b)),
            Concrete::App(b) => Concrete::Pb(PacketBuilder::from(b)),
            Concrete::Unknown(b) => Concrete::Pb(PacketBuilder::from(b)),
            Concrete::Tfb(b) => Concrete::Pb(PacketBuilder::from(b)),
            Concrete::Pfb(b) => Concrete::Pb(PacketBuilder::from(b)),
            Concrete::TfbS(b) => Concrete::PbS(PacketBuilder::from(b)),
            Concrete::PfbS(b) => Concrete::PbS(PacketBuilder::from(b)),
            other => other,
        },
        Plan::Third { pt, count, ssrc, payload, padding } => Concrete::Third(ThirdW { pt: *pt, count: *count, ssrc: *ssrc, payload, padding: *padding }),
        Plan::Compound(ms) => {
            let mut cb = if alt_ctor() { CompoundBuilder::default() } else { Compound::builder() };
            for m in ms {
                cb = match build(m, fcis, next_fci) {
                    Concrete::Sr(b) => cb.add_packet(b),
                    Concrete::Rr(b) => cb.add_packet(b),
                    Concrete::Sdes(b) => cb.add_packet(b),
                    Concrete::Bye(b) => cb.add_packet(b),
                    Concrete::App(b) => cb.add_packet(b),
                    Concrete::Unknown(b) => cb.add_packet(b),
                    Concrete::Tfb(b) => cb.add_packet(b),
                    Concrete::Pfb(b) => cb.add_packet(b),
                    Concrete::TfbS(b) => cb.add_packet(b),
                    Concrete::PfbS(b) => cb.add_packet(b),
                    Concrete::PbS(b) => cb.add_packet(b),
                    Concrete::Third(b) => cb.add_packet(b),
                    Concrete::Compound(b) => cb.add_packet(b),
                    Concrete::Pb(b) => cb.add_packet(b),
                    // part builders are not packet writers; the spec generator never nests them
                    Concrete::Chunk(_) | Concrete::Item(_) | Concrete::Fci(_) => cb,
                };
                probe(&cb);
            }
            Concrete::Compound(cb)
        }
        Plan::Chunk(c) => Concrete::Chunk(build_chunk(c)),
        Plan::Item(i) => Concrete::Item(build_item(i)),
        Plan::Fci(f) => Concrete::Fci(build_fci_any(f)),
    }
}

impl<'a> Concrete<'a> {
    fn writer(&self) -> Option<&dyn RtcpPacketWriter> {
        Some(match self {
            Concrete::Sr(b) => b,
            Concrete::Rr(b) => b,
            Concrete::Sdes(b) => b,
            Concrete::Bye(b) => b,
            Concrete::App(b) => b,
            Concrete::Unknown(b) => b,
            Concrete::Tfb(b) => b,
            Concrete::Pfb(b) => b,
            Concrete::TfbS(b) => b,
            Concrete::PfbS(b) => b,
            Concrete::PbS(b) => b,
            Concrete::Third(b) => b,
            Concrete::Compound(b) => b,
            Concrete::Pb(b) => b,
            Concrete::Fci(FciAny::Nack(b)) => b,
            Concrete::Fci(FciAny::Fir(b)) => b,
            Concrete::Fci(FciAny::Sli(b)) => b,
            Concrete::Fci(FciAny::Rpsi(b)) => b,
            Concrete::Fci(FciAny::Pli(b)) => b,
            Concrete::Chunk(_) | Concrete::Item(_) => return None,
        })
    }

    /// `calculate_size()`; part builders have no public size function (None).
    pub fn size(&self) -> Option<Result<usize, RtcpWriteError>> {
        // method syntax on the concrete type, as a caller writes it: an inherent method of the same
        // name would be the one a caller reaches
        Some(match self {
            Concrete::Sr(b) => b.calculate_size(),
            Concrete::Rr(b) => b.calculate_size(),
            Concrete::Sdes(b) => b.calculate_size(),
            Concrete::Bye(b) => b.calculate_size(),
            Concrete::App(b) => b.calculate_size(),
            Concrete::Unknown(b) => b.calculate_size(),
            Concrete::Tfb(b) => b.calculate_size(),
            Concrete::Pfb(b) => b.calculate_size(),
            Concrete::TfbS(b) => b.calculate_size(),
            Concrete::PfbS(b) => b.calculate_size(),
            Concrete::PbS(b) => b.calculate_size(),
            Concrete::Third(b) => b.calculate_size(),
            Concrete::Compound(b) => b.calculate_size(),
            Concrete::Pb(b) => b.calculate_size(),
            Concrete::Fci(FciAny::Nack(b)) => b.calculate_size(),
            Concrete::Fci(FciAny::Fir(b)) => b.calculate_size(),
            Concrete::Fci(FciAny::Sli(b)) => b.calculate_size(),
            Concrete::Fci(FciAny::Rpsi(b)) => b.calculate_size(),
            Concrete::Fci(FciAny::Pli(b)) => b.calculate_size(),
            Concrete::Chunk(_) | Concrete::Item(_) => return None,
        })
    }

    /// The public `write_into`.
    pub fn write(&self, buf: &mut [u8]) -> Result<usize, RtcpWriteError> {
        match self {
            Concrete::Sr(b) => b.write_into(buf),
            Concrete::Rr(b) => b.write_into(buf),
            Concrete::Sdes(b) => b.write_into(buf),
            Concrete::Bye(b) => b.write_into(buf),
            Concrete::App(b) => b.write_into(buf),
            Concrete::Unknown(b) => b.write_into(buf),
            Concrete::Tfb(b) => b.write_into(buf),
            Concrete::Pfb(b) => b.write_into(buf),
            Concrete::TfbS(b) => b.write_into(buf),
            Concrete::PfbS(b) => b.write_into(buf),
            Concrete::PbS(b) => b.write_into(buf),
            Concrete::Third(b) => b.write_into(buf),
            Concrete::Compound(b) => b.write_into(buf),
            Concrete::Pb(b) => b.write_into(buf),
            Concrete::Chunk(b) => b.write_into(buf),
            Concrete::Item(b) => b.write_into(buf),
            Concrete::Fci(FciAny::Nack(b)) => b.write_into(buf),
            Concrete::Fci(FciAny::Fir(b)) => b.write_into(buf),
            Concrete::Fci(FciAny::Sli(b)) => b.write_into(buf),
            Concrete::Fci(FciAny::Rpsi(b)) => b.write_into(buf),
            Concrete::Fci(FciAny::Pli(b)) => b.write_into(buf),
        }
    }

    pub fn get_padding(&self) -> Option<u8> {
        self.writer().and_then(|w| w.get_padding())
    }

    /// The public `write_into_unchecked` (None for chunk / item builders, whose unchecked writers
    /// are not public).
    pub fn write_unchecked(&self, buf: &mut [u8]) -> Option<usize> {
        self.writer().map(|w| w.write_into_unchecked(buf))
    }
}

/// Execute the plan's history against the real builders under hash key `hash_key`
/// and hand the finished builder to `f`.
pub fn realise<R>(p: &Plan, hash_key: u64, f: impl FnOnce(&Concrete<'_>) -> R) -> R {
    realise_probed(p, hash_key, 0, f)
}

/// As `realise`, with observation probes (size queries / scratch writes on the unfinished
/// builders) at the positions of `probe_mask` between the configuration calls.
pub fn realise_probed<R>(p: &Plan, hash_key: u64, probe_mask: u64, f: impl FnOnce(&Concrete<'_>) -> R) -> R {
    realise_with(p, hash_key, probe_mask, 0, f)
}

/// As `realise_probed`, plus a mask choosing, per constructed builder, between `X::builder(..)`
/// and its public sibling constructor (`XBuilder::new(..)` / `XBuilder::default()`).
pub fn realise_with<R>(p: &Plan, hash_key: u64, probe_mask: u64, ctor_mask: u64, f: impl FnOnce(&Concrete<'_>) -> R) -> R {
    rtcp_types::verif_hooks::set_hash_seed(hash_key);
    set_ctor_forms(ctor_mask);
    set_probes(probe_mask);
    let mut arena = Vec::new();
    collect_fcis(p, &mut arena);
    let mut next = 0usize;
    let c = build(p, &arena, &mut next);
    set_probes(0);
    set_ctor_forms(0);
    f(&c)
}
