//! The receive buffer (S-buf on the receiver side).  A real receiver reads every datagram into
//! the same buffer; what the previous datagram left there, and the fact that address and length
//! may repeat, are part of the environment.  Deliveries are therefore parsed IN PLACE in one
//! reusable buffer per worker, and the previous content is kept so that a violation that needs
//! it (state remembered across two `parse` calls) replays exactly.

use std::cell::RefCell;

struct Arena {
    buf: Vec<u8>,
    cur: usize,
    prev: Vec<u8>,
}

thread_local! {
    static ARENA: RefCell<Arena> = RefCell::new(Arena { buf: Vec::new(), cur: 0, prev: Vec::new() });
}

/// Copy `d` into the worker's receive buffer (over what the previous delivery left) and run `f`
/// on it there.
pub fn deliver_in_place<R>(d: &[u8], f: impl FnOnce(&[u8]) -> R) -> R {
    let mut buf = ARENA.with(|a| {
        let mut a = a.borrow_mut();
        let cur = a.cur;
        let mut prev = std::mem::take(&mut a.prev);
        prev.clear();
        prev.extend_from_slice(&a.buf[..cur.min(a.buf.len())]);
        a.prev = prev;
        a.cur = d.len();
        std::mem::take(&mut a.buf)
    });
    if buf.len() < d.len().max(1 << 20) {
        buf.resize(d.len().max(1 << 20), 0);
    }
    buf[..d.len()].copy_from_slice(d);
    crate::ambient::note_delivery(d);
    // a panic inside `f` is caught by the callers' own guards before it gets here
    let r = f(&buf[..d.len()]);
    ARENA.with(|a| a.borrow_mut().buf = buf);
    r
}

/// What the receive buffer held when the current / last delivery arrived.
pub fn previous() -> Vec<u8> {
    ARENA.with(|a| a.borrow().prev.clone())
}
