#!/bin/bash
# Independent confirmation of a sub-agent's change: usage seeded_validate.sh <worktree> <k>
# 1. clean tree + change: existing suite passes; 2. + demo: demo fails; 3. clean tree + demo: demo passes.
set -u
WT="$1"; K="$2"
export CARGO_NET_OFFLINE=true
cd "$WT" || exit 2
git checkout -q -- . && git clean -fdq -e mutants
git apply "mutants/m$K.diff" || { echo "m$K: patch does not apply"; exit 2; }
files=$(git diff --name-only | tr '\n' ' ')
suite=$(cargo test --workspace --no-fail-fast --offline 2>&1 | grep -E "^test result" | tr '\n' ' ')
cp "mutants/m${K}_demo.rs" tests/zz_demo.rs
with=$(timeout 300 cargo test --offline --test zz_demo 2>&1 | grep -E "^test result|error(\[|:)" | head -2 | tr '\n' ' ')
git checkout -q -- . 
without=$(timeout 300 cargo test --offline --test zz_demo 2>&1 | grep -E "^test result|error(\[|:)" | head -2 | tr '\n' ' ')
rm -f tests/zz_demo.rs
git checkout -q -- . && git clean -fdq -e mutants
echo "m$K files: $files"
echo "  suite with change : $suite"
echo "  demo with change  : $with"
echo "  demo without      : $without"
