#!/bin/bash
# seeded_round_add.sh <round letter> [prefix]: keep the confirmed mutants of a round under /verif/seeded/<P>-<round><k>
# (only those whose validate.log shows suite ok / demo FAILED with / demo ok without)
R="$1"; PFX="${2:-/tmp/wt}"
for p in C01 C06 C08 C11 C17 C18 C20; do
  wt="$PFX-$p-$R"; log="$wt/mutants/validate.log"
  [ -f "$log" ] || continue
  for k in 1 2 3 4; do
    blk=$(grep -A3 "^m$k files" "$log")
    s=$(echo "$blk" | grep "suite with change" | grep -c "89 passed.*5 passed")
    sf=$(echo "$blk" | grep "suite with change" | grep -c "FAILED")
    w=$(echo "$blk" | grep "demo with change" | grep -c "FAILED\|error")
    wo=$(echo "$blk" | grep "demo without" | grep "test result: ok" | grep -vc FAILED)
    if [ "$s" = 1 ] && [ "$sf" = 0 ] && [ "$w" = 1 ] && [ "$wo" = 1 ]; then
      python3 /verif/seeded_add.py "$wt" "$k" "$p" "$p-$R$k" >/dev/null && echo "kept $p-$R$k"
    else
      echo "REJECTED $p-$R$k (suite=$s suitefail=$sf demo_with_fails=$w demo_without_ok=$wo)"
    fi
  done
done
